from cachetools import LRUCache
from common import *
warnings.simplefilter("ignore")
rb = RigidBody(1.0, np.eye(3))
for name in ["A_IB_cache","A_IB_q_cache","r_OP_cache","v_P_cache","J_P_cache"]:
    setattr(rb, name, LRUCache(maxsize=0))
q = np.array([0,0,0,1,0.2,0,0.]); 
print(rb.A_IB(0.0,q)[0], rb.r_OP(0.0,q,B_r_CP=np.array([1.,0,0])))
print(len(rb.A_IB_cache), type(RigidBody.A_IB), hasattr(RigidBody.A_IB,"__wrapped__"))
