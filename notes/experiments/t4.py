from common import *
warnings.simplefilter("ignore")
from cardillo.math import Exp_SO3, Spurrier
rng = np.random.default_rng(0)
def mk(axis=2, angle0=0.0, A_IJ0=None):
    system = System()
    rb = RigidBody(1.0, np.eye(3), np.array([0,0,0,1,0,0,0.]), np.zeros(6))
    j = Revolute(system.origin, rb, axis=axis, angle0=angle0, r_OJ0=np.zeros(3), A_IJ0=A_IJ0)
    system.add(rb, j)
    quiet(system.assemble)
    return system, rb, j
bad=0
for trial in range(200):
    axis = rng.integers(3); angle0 = rng.uniform(-3,3)
    A_IJ0 = Exp_SO3(rng.normal(size=3)) if trial%2 else None
    system, rb, j = mk(axis, angle0, A_IJ0)
    A0 = np.eye(3) if A_IJ0 is None else A_IJ0
    e = A0[:, axis]
    phi = 0.0
    for step in range(200):
        dphi = rng.uniform(-np.pi/2, np.pi/2)*0.999
        phi += dphi
        A = Exp_SO3(e*((phi+np.pi)%(2*np.pi)-np.pi)) if False else None
        # build rotation about e by phi: use Rodrigues with wrapping
        from cardillo.math import ax2skew
        K = ax2skew(e); R = np.eye(3)+np.sin(phi)*K+(1-np.cos(phi))*K@K
        q = np.concatenate([np.zeros(3), Spurrier(R)])
        a = j.l(0.0, q)
        a2 = j.l(0.0, q)
        if abs(a-(angle0+phi))>1e-8 or abs(a2-a)>1e-12:
            bad+=1
            print("MISMATCH trial",trial,"step",step,"axis",axis,"phi",phi,"got",a-angle0, "dphi", dphi, "repeat", a2-angle0)
            break
print("bad", bad)
