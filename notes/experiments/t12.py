from common import *
from cardillo.actuators import Motor
warnings.simplefilter("ignore")
system,bodies,joints = double_pendulum(1, alpha0=np.pi/3)
system.add(Motor(joints[0], 3.0))
quiet(system.assemble)
t0,q0,u0 = system.t0, system.q0, system.u0
res = system.M(t0,q0)@system.u_dot0 - system.h(t0,q0,u0) - system.W_g(t0,q0)@system.la_g0 - system.W_tau(t0,q0)@system.la_tau(t0,q0,u0)
print("EoM residual incl. actuator:", np.abs(res).max())
sol = quiet(lambda: ScipyIVP(system, 0.01, 0.01).solve())
print("u_dot0 assemble", system.u_dot0[3:], "ivp", sol.u_dot[0][3:])
