import os, sys, io, contextlib, warnings
os.environ["CARDILLOPROJECT_CARDILLO_VERIF"]="1"
sys.path.insert(0, "/tmp/scratch/rc")
import numpy as np
import cardillo
assert cardillo.__file__.startswith("/tmp/scratch/rc"), cardillo.__file__
from cardillo import System, _verif
from cardillo.discrete import PointMass, RigidBody
from cardillo.forces import Force
from cardillo.contacts import Sphere2Plane
from cardillo.solver import BackwardEuler, Moreau, SolverOptions
import cardillo.solver.backward_euler as be_mod, cardillo.solver.moreau as mo_mod

class Sim:
    def __init__(self, faults=()):
        self.step=0; self.events=[]; self.counts={}; self.faults=set(faults); self.fired=[]
        self.active=None
    def progress(self, iterable=None, **kw):
        sim=self
        class P:
            def __iter__(s):
                for k,x in enumerate(iterable):
                    sim.step=k+1; sim.counts={}; sim.events.append(("step",k+1)); yield x
                sim.events.append(("loop_end",))
            def set_description(s,*a,**k): pass
            def update(s,*a,**k): pass
            def close(s): pass
        return P()
    def sink(self, site, value):
        # occurrence counting per loop instance: fsolve.initial starts a new instance
        if site=="fsolve.initial":
            self.counts["fsolve"]=self.counts.get("fsolve",0)+1
            self.active = ("fsolve", self.step, self.counts["fsolve"]) in self.faults
            key=("fsolve", self.step, self.counts["fsolve"])
        elif site=="fsolve.iter":
            key=("fsolve", self.step, self.counts["fsolve"])
        else:
            key=(site, self.step, 1); 
        forced = key in self.faults
        out = False if forced else value
        if forced and key not in self.fired: self.fired.append(key)
        self.events.append((site, self.step, bool(value), bool(out)))
        return out

def scene():
    s = System()
    b = PointMass(1.0, q0=np.array([0,0,0.1]), u0=np.array([0.5,0,0.]))
    s.add(b, Force(np.array([0,0,-9.81]), b), Sphere2Plane(s.origin, b, mu=0.3, r=0.1, e_N=0.0, e_F=0.0))
    with contextlib.redirect_stdout(io.StringIO()): s.assemble()
    return s

def run(S, mod, faults, cont=False):
    sim = Sim(faults); mod.tqdm = sim.progress; _verif.install(sim.sink)
    s = scene()
    with warnings.catch_warnings(record=True) as w, contextlib.redirect_stdout(io.StringIO()):
        warnings.simplefilter("always")
        try:
            sol = S(s, 0.05, 0.01, options=SolverOptions(continue_with_unconverged=cont, fixed_point_max_iter=30)).solve()
            out = ("returned", len(sol.t), float(sol.t[-1]))
        except Exception as e:
            out = ("raised", type(e).__name__, str(e)[:50])
    _verif.install(None)
    return out, sim.fired, [str(x.message)[:70] for x in w if "converged" in str(x.message)]

print("BE pilot:", run(BackwardEuler, be_mod, []))
for f in [("fsolve",3,1), ("fsolve",3,2), ("be.fp",3,1)]:
    print("BE", f, run(BackwardEuler, be_mod, [f]))
print("BE cont", run(BackwardEuler, be_mod, [("fsolve",3,2)], cont=True)[0:2])
for f in [("moreau.fp",3,1)]:
    print("Moreau", f, run(Moreau, mo_mod, [f]), run(Moreau, mo_mod, [f], cont=True))

print("---- enumerate")
sim = Sim([]); be_mod.tqdm = sim.progress; _verif.install(sim.sink)
s = scene()
with warnings.catch_warnings(record=True) as w, contextlib.redirect_stdout(io.StringIO()):
    warnings.simplefilter("always")
    sol = BackwardEuler(s, 0.2, 0.01).solve()
_verif.install(None)
pts = sorted({(e[0] if e[0]!="fsolve.initial" else "fsolve", e[1]) for e in sim.events if e[0] in ("fsolve.initial","be.fp")})
from collections import Counter
c = Counter((e[1]) for e in sim.events if e[0]=="fsolve.initial")
print("fsolve calls per step", dict(c))
multi = [k for k,v in c.items() if v>1]
if multi:
    k = multi[0]
    print("BE inner fsolve failure at step", k, run2 := None)
    sim = Sim([("fsolve",k,2)]); be_mod.tqdm = sim.progress; _verif.install(sim.sink)
    s = scene()
    with warnings.catch_warnings(record=True) as w, contextlib.redirect_stdout(io.StringIO()):
        warnings.simplefilter("always")
        sol = BackwardEuler(s, 0.2, 0.01).solve()
    _verif.install(None)
    print("returned", len(sol.t), sol.t[-1], "fired", sim.fired, "warnings", [str(x.message)[:80] for x in w])
