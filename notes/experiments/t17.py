from common import *
import tempfile, shutil, os, glob
from xml.dom import minidom
import vtk
from vtk.util.numpy_support import vtk_to_numpy
warnings.simplefilter("ignore")
system,bodies,joints = double_pendulum(2, alpha0=np.pi/3)
sol = quiet(lambda: Rattle(system, 0.2, 0.01).solve())
d = tempfile.mkdtemp()
e = quiet(lambda: system.export(d, "exp", sol, fps=30))
print(sorted(os.listdir(os.path.join(d,"exp")))[:8], len(os.listdir(os.path.join(d,"exp"))))
pvd = minidom.parse(os.path.join(d,"exp","rb0.pvd"))
ds = [(float(x.getAttribute("timestep")), x.getAttribute("file")) for x in pvd.getElementsByTagName("DataSet")]
print(len(ds), ds[:3], "frames in e.solution", len(e.solution.t))
r = vtk.vtkXMLUnstructuredGridReader(); r.SetFileName(os.path.join(d,"exp",ds[2][1])); r.Update()
g = r.GetOutput()
pts = vtk_to_numpy(g.GetPoints().GetData())
cd = g.GetCellData()
names = [cd.GetArrayName(i) for i in range(cd.GetNumberOfArrays())]
v = vtk_to_numpy(cd.GetArray("v"))
i = np.argmin(np.abs(sol.t-ds[2][0]))
rb = bodies[0]
print("points", pts, "expected", sol.q[i][rb.qDOF][:3], "diff", np.abs(pts[0]-sol.q[i][rb.qDOF][:3]).max(), names, "v diff", np.abs(v[0]-sol.u[i][rb.uDOF][:3]).max())
print(open(os.path.join(d,"exp",ds[2][1])).read()[:600])
shutil.rmtree(d)
