from common import *
from cardillo.contacts import Sphere2Plane
warnings.simplefilter("ignore")
def scene():
    s = System()
    b = RigidBody(1.0, 0.4*0.1**2*np.eye(3), q0=np.array([0,0,0.3,1,0,0,0.]), u0=np.array([0.5,0,0,0,3.0,0]))
    f = Force(np.array([0,0,-9.81]), b)
    c = Sphere2Plane(s.origin, b, mu=0.3, r=0.1, e_N=0.5, e_F=0.0)
    s.add(b,f,c); quiet(s.assemble)
    return s
for S in [Moreau, Rattle, BackwardEuler, DualStormerVerlet, ScipyIVP, ScipyDAE]:
    s = scene()
    sol = quiet(lambda: S(s, 0.05, 0.01).solve())
    nt = len(sol.t)
    shapes = {k: (None if v is None else getattr(v,'shape',type(v).__name__)) for k,v in sol.__dict__.items() if k not in ("system","solver_summary")}
    print(S.__name__, nt, shapes)
    try:
        recs = list(sol)
        ok = len(recs)==nt and all(np.array_equal(r.q, sol.q[i]) and r.t==sol.t[i] for i,r in enumerate(recs))
        print("   iter ok", ok, recs[0]._fields)
    except Exception as e:
        print("   iter EXC", type(e).__name__, e)
    import tempfile, os
    p = tempfile.mktemp()
    try:
        sol.save(p); l = load_solution(p)
        print("   load ok", all((getattr(l,k) is None and v is None) or np.array_equal(getattr(l,k), v) for k,v in sol.__dict__.items() if k not in ("system","solver_summary")))
    except Exception as e:
        print("   save/load EXC", type(e).__name__, str(e)[:100])
