import numpy as np, warnings
from cardillo import System
from cardillo.discrete import RigidBody, PointMass, Frame
from cardillo.contacts import Sphere2Plane
from cardillo.forces import Force
s = System()
pm = PointMass(1.0, q0=np.array([0,0,1.0]))
f = Force(np.array([0,0,-10.0]), pm)
c = Sphere2Plane(s.origin, pm, mu=0.3, r=0.1, e_N=0.5)
s.add(pm, f, c)
s.assemble()
print("nq", s.nq, "nu", s.nu)
try:
    s.assemble()
    print("reassemble ok nq", s.nq, s.nu)
except Exception as e:
    print("reassemble failed:", type(e), e)
