from t18 import *
seed=39
for fac in [1,0.5,0.25,0.125]:
    rng=np.random.default_rng(seed); s=scene(rng, True); dt=10**rng.uniform(-3,-2)*fac
    sol = quiet(lambda: Rattle(s, 150*dt/fac, dt, options=SolverOptions(newton_atol=1e-10,newton_rtol=1e-10,fixed_point_atol=1e-10,fixed_point_rtol=1e-10)).solve())
    M = s.M(0,s.q0).toarray(); T = np.array([0.5*u@M@u for u in sol.u])
    rel = (T[1:]-T[:-1])/(T[:-1]+1e-12); k=np.argmax(rel)
    print(fac, dt, "max rel inc", rel[k], "at step", k+1, "total T change", T[-1]/T[0]-1)
