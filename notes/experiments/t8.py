from common import *
import time
from cardillo.rods import RectangularCrossSection, Simo1986, Harsch2021
from cardillo.rods.cosseratRod import make_CosseratRod
from cardillo.constraints import RigidConnection
from cardillo.forces import Force, B_Moment
from cardillo.math import e2, e3
warnings.simplefilter("ignore")
def cant(interp, mixed, constraints, nel=3, nls=3, law=Harsch2021, deg=None):
    Rod = make_CosseratRod(interpolation=interp, mixed=mixed, constraints=constraints) if deg is None else make_CosseratRod(interpolation=interp, mixed=mixed, constraints=constraints, polynomial_degree=deg)
    length = 2*np.pi
    cs = RectangularCrossSection(length/100, length/100)
    mat = law(np.array([5,1,1.]), np.array([0.5,2,2.]))
    system = System()
    q0 = Rod.straight_configuration(nel, length)
    rod = Rod(cs, mat, nel, Q=q0, q0=q0)
    clamp = RigidConnection(system.origin, rod, xi2=(0,))
    P = lambda t: 2*(10*t)/length**2
    system.add(rod, clamp, Force(lambda t: -P(t)*e2, rod, (1,)), B_Moment(lambda t: 2.5*P(t)*e3, rod, (1,)))
    quiet(lambda: system.assemble(options=SolverOptions(compute_consistent_initial_conditions=False)))
    solver = Newton(system, n_load_steps=nls, verbose=False, options=SolverOptions(newton_max_iter=30, newton_atol=1e-8))
    t0=time.time(); sol = quiet(solver.solve); el=time.time()-t0
    res = [np.abs(solver.fun(solver.x[i], sol.t[i])).max() for i in range(len(sol.t))]
    return el, len(sol.t), max(res), system.nq
for interp in ["Quaternion","SE3","R12"]:
    for mixed in [False, True]:
        for cons in [None,[1,2],[0,1,2]]:
            try:
                print(interp, mixed, cons, cant(interp, mixed, cons, law=Simo1986 if mixed else Harsch2021))
            except Exception as e:
                print(interp, mixed, cons, "EXC", type(e).__name__, str(e)[:100])
