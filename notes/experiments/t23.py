from common import *
from cardillo.contacts import Sphere2Sphere, Sphere2Plane
from cardillo.interactions import TwoPointInteraction
from cardillo.force_laws import MaxwellElement
from cardillo.actuators import Motor, PDcontroller, PIDcontroller
from cardillo.constraints import *
from cardillo.rods import RectangularCrossSection, Simo1986, Harsch2021
from cardillo.rods.cosseratRod import make_CosseratRod
warnings.simplefilter("ignore")
def build():
    system, bodies, joints = double_pendulum(2, alpha0=np.pi/3, spring=True)
    pm = PointMass(0.5, q0=np.array([1.0,0.5,0.3]), u0=np.array([0.1,0,0]), name="pm")
    tpi = TwoPointInteraction(bodies[1], pm, B_r_CP1=np.array([0,-0.5,0]))
    system.add(pm, tpi, KelvinVoigtElement(tpi, 10.0, 1.0, l_ref=1.0, name="kv"), (tpi2:=TwoPointInteraction(system.origin, pm, name="tpi2")), MaxwellElement(tpi2, 5.0, 2.0, l_ref=1.0, name="mx"))
    system.add(Motor(joints[0], 0.3), PIDcontroller(joints[1], 1.0, 0.1, 0.2, np.array([0.1,0.0])))
    system.add(Sphere2Plane(Frame(r_OP=np.array([0,-5.0,0]), A_IB=A_IB_basic(-np.pi/2).x, name="ground"), pm, mu=0.3, r=0.05, e_N=0.5, name="s2p"))
    system.add(Sphere2Sphere(bodies[0], pm, 0.05, 0.05, mu=0.2, e_N=0.3, name="s2s"))
    Rod = make_CosseratRod(interpolation="Quaternion", mixed=True, constraints=[1,2])
    q0 = Rod.straight_configuration(2, 1.0, r_OP0=np.array([3.0,0,0]))
    rod = Rod(RectangularCrossSection(0.1,0.1), Simo1986(np.array([5,1,1.]), np.array([0.5,2,2.])), 2, Q=q0, q0=q0)
    system.add(rod, RigidConnection(system.origin, rod, xi2=(0,), name="clamp"))
    return system
system = build()
quiet(system.assemble)
rng = np.random.default_rng(0)
def snapshot(s):
    q = s.q0 + 0.01*np.random.default_rng(1).normal(size=s.nq); u = np.random.default_rng(2).normal(size=s.nu)
    t=0.1
    out = dict(nq=s.nq, nu=s.nu, nla_g=s.nla_g, nla_c=s.nla_c, nla_N=s.nla_N, nla_F=s.nla_F, q0=s.q0.copy(), u0=s.u0.copy(),
        h=s.h(t,q,u), g=s.g(t,q), gd=s.g_dot(t,q,u), M=s.M(t,q).toarray(), Wg=s.W_g(t,q).toarray(), qd=s.q_dot(t,q,u), lac=s.la_c(t,q,u), gN=s.g_N(t,q), gF=s.gamma_F(t,q,u), Wtau=s.W_tau(t,q).toarray(), latau=s.la_tau(t,q,u), Wc=s.W_c(t,q).toarray())
    return out
try:
    a = snapshot(system)
    quiet(system.assemble)
    b = snapshot(system)
    for k in a:
        same = np.array_equal(a[k], b[k])
        if not same: print("DIFF", k, np.abs(np.asarray(a[k])-np.asarray(b[k])).max() if np.shape(a[k])==np.shape(b[k]) else (np.shape(a[k]), np.shape(b[k])))
    print("reassemble compared", len(a), "quantities; nq", a["nq"], "nu", a["nu"], "nla_g", a["nla_g"])
except Exception as e:
    import traceback; traceback.print_exc()
