from common import *
from cardillo.actuators import Motor
warnings.simplefilter("ignore")
res={}
for S in [Moreau, Rattle, BackwardEuler, DualStormerVerlet, ScipyIVP, ScipyDAE]:
    out=[]
    for tau in [0.0, 5.0]:
        system,bodies,joints = double_pendulum(1, alpha0=np.pi/3)
        system.add(Motor(joints[0], tau)); quiet(system.assemble)
        sol = quiet(lambda: S(system, 0.1, 0.01).solve())
        out.append(sol.q[-1].copy())
    print(S.__name__, "effect of motor torque on final q:", np.abs(out[0]-out[1]).max())
