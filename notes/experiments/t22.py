from common import *
import cardillo.solver.scipy_ivp as ivp_mod, cardillo.solver.scipy_dae as dae_mod
warnings.simplefilter("ignore")
real_ivp = ivp_mod.solve_ivp; real_dae = dae_mod.solve_dae
def mk_fault(real, tau):
    def wrapped(fun, t_span, *args, t_eval=None, **kw):
        t_span2 = (t_span[0], tau)
        te = None if t_eval is None else t_eval[t_eval <= tau]
        sol = real(fun, t_span2, *args, t_eval=te, **kw)
        sol.status = -1; sol.success=False; sol.message = "Required step size is less than spacing between numbers."
        return sol
    return wrapped
for name, mod, S, attr in [("ivp", ivp_mod, ScipyIVP, "solve_ivp"), ("dae", dae_mod, ScipyDAE, "solve_dae")]:
    system,_,_ = double_pendulum(1)
    setattr(mod, attr, mk_fault(getattr(mod, attr), 0.047))
    with warnings.catch_warnings(record=True) as w:
        warnings.simplefilter("always")
        sol = quiet(lambda: S(system, 0.1, 0.01).solve())
    print(name, "returned", len(sol.t), sol.t[-1], "warnings", [str(x.message)[:60] for x in w])
