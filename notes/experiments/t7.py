from common import *
from cardillo.contacts import Sphere2Sphere, Sphere2Plane
import time
warnings.simplefilter("ignore")
def scene(eN=0.5, mu=0.3, rb=True):
    s = System()
    if rb:
        b = RigidBody(1.0, 0.4*0.1**2*np.eye(3), q0=np.array([0,0,0.3,1,0,0,0.]), u0=np.array([0.5,0,0,0,3.0,0]))
    else:
        b = PointMass(1.0, q0=np.array([0,0,0.3]), u0=np.array([0.5,0,0.]))
    f = Force(np.array([0,0,-9.81]), b)
    c = Sphere2Plane(s.origin, b, mu=mu, r=0.1, e_N=eN, e_F=0.0)
    s.add(b,f,c); quiet(s.assemble)
    return s, b, c
for S in [Moreau, Rattle, BackwardEuler, DualStormerVerlet]:
    s,b,c = scene()
    t0=time.time()
    try:
        sol = quiet(lambda: S(s, 1.0, 1e-2).solve())
    except Exception as e:
        print(S.__name__, "EXC", e); continue
    el=time.time()-t0
    gN = np.array([s.g_N(t,q) for t,q in zip(sol.t, sol.q)])[:,0]
    gNd = np.array([s.g_N_dot(t,q,u) for t,q,u in zip(sol.t, sol.q, sol.u)])[:,0]
    gF = np.array([s.gamma_F(t,q,u) for t,q,u in zip(sol.t, sol.q, sol.u)])
    PN = sol.P_N[:,0]; PF = sol.P_F
    print(S.__name__, f"{el:.2f}s", "min gN", gN.min(), "min PN", PN.min(), "max PN", PN.max(),
          "max PN*gN(where PN>0)", np.max(np.where(PN>1e-12, np.abs(gN), 0)),
          "cone viol", np.max(np.linalg.norm(PF,axis=1)-0.3*PN))
    idx = np.where(PN>1e-12)[0]
    print("   contact steps", len(idx), "first", idx[:5], "gNd there", gNd[idx[:5]], "gN there", gN[idx[:5]])
