from common import *
import time
warnings.simplefilter("ignore")
tight = lambda: SolverOptions(newton_atol=1e-11, newton_rtol=1e-11, fixed_point_atol=1e-11, fixed_point_rtol=1e-11)
def energy(system, bodies, sol):
    E=[]
    for t,q,u in zip(sol.t, sol.q, sol.u):
        M = system.M(t,q).toarray()
        E.append(0.5*u@M@u + system.E_pot(t,q))
    return np.array(E)
for dt in [1e-2, 5e-3, 2.5e-3]:
    system,bodies,joints = double_pendulum(2, alpha0=np.pi/3, spring=True)
    T=2.0; N=int(round(T/dt))
    t0=time.time()
    sol = quiet(Rattle(system, N*dt-1e-9, dt, options=tight()).solve)
    E = energy(system,bodies,sol)
    print(dt, len(sol.t), "dE max", np.abs(E-E[0]).max(), "first half", np.abs(E[:N//2]-E[0]).max(), "second half", np.abs(E[N//2:]-E[0]).max(), round(time.time()-t0,1))
# reversibility
system,bodies,joints = double_pendulum(2, alpha0=np.pi/3, spring=True)
dt=5e-3; N=100
sol = quiet(Rattle(system, N*dt-1e-9, dt, options=tight()).solve)
sys2 = system.deepcopy()
try:
    quiet(lambda: sys2.set_new_initial_state(sol.q[-1], -sol.u[-1], t0=0.0))
    sol2 = quiet(Rattle(sys2, N*dt-1e-9, dt, options=tight()).solve)
    print("rev err q", np.abs(sol2.q[-1]-sol.q[0]).max(), "u", np.abs(sol2.u[-1]+sol.u[0]).max(), len(sol2.t))
except BaseException as e:
    print("EXC", type(e).__name__, e)
