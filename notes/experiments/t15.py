from common import *
from cardillo.contacts import Sphere2Sphere, Sphere2Plane
import time, sys
warnings.simplefilter("ignore")
def scene(rng, gravity=True):
    s = System()
    n = rng.integers(1,4)
    bodies=[]; contrs=[]
    for i in range(n):
        r = rng.uniform(0.05,0.2); m = rng.uniform(0.2,3)
        pos = np.array([i*0.6+rng.uniform(-0.05,0.05), rng.uniform(-0.1,0.1), r + rng.uniform(0.0,0.4)])
        vel = rng.normal(size=3)*0.5
        if rng.random()<0.6:
            b = RigidBody(m, 0.4*m*r*r*np.eye(3), q0=np.concatenate([pos,[1,0,0,0]]), u0=np.concatenate([vel, rng.normal(size=3)*5]), name=f"b{i}")
        else:
            b = PointMass(m, q0=pos, u0=vel, name=f"b{i}")
        b._r = r
        bodies.append(b); s.add(b)
        if gravity: s.add(Force(np.array([0,0,-9.81*m]), b, name=f"g{i}"))
        eN = rng.choice([0,0.5,1.0, rng.uniform(0,1)]); mu = rng.choice([0,0.3,1.0,rng.uniform(0,1)])
        s.add(Sphere2Plane(s.origin, b, mu=mu, r=r, e_N=eN, e_F=0.0, name=f"c{i}"))
    for i in range(n-1):
        mu = rng.choice([0,0.3, rng.uniform(0,1)]); eN = rng.choice([0,0.5,1.0])
        s.add(Sphere2Sphere(bodies[i], bodies[i+1], bodies[i]._r, bodies[i+1]._r, mu=mu, e_N=eN, e_F=0.0, name=f"ss{i}"))
    quiet(s.assemble)
    return s
stats={}
for S in [Moreau, Rattle, BackwardEuler, DualStormerVerlet]:
    ok=fail=0; worst=dict(pen=0, PNneg=0, cone=0, comp=0); t0=time.time()
    for seed in range(30):
        rng = np.random.default_rng(seed)
        try:
            s = scene(rng)
        except BaseException as e:
            fail+=1; continue
        dt = 10**rng.uniform(-3,-2)
        try:
            sol = quiet(lambda: S(s, 100*dt, dt).solve())
        except BaseException as e:
            fail+=1; print(S.__name__, seed, "EXC", type(e).__name__, str(e)[:60]); continue
        ok+=1
        PN = sol.P_N; PF=sol.P_F
        gN = np.array([s.g_N(t,q) for t,q in zip(sol.t, sol.q)])
        worst["PNneg"]=max(worst["PNneg"], -PN.min())
        if S in (Rattle, BackwardEuler):
            worst["pen"]=max(worst["pen"], -gN[1:].min())
            worst["comp"]=max(worst["comp"], np.abs(PN[1:]*gN[1:]).max())
    stats[S.__name__]=(ok,fail,worst, round(time.time()-t0,1))
    print(S.__name__, stats[S.__name__])
