from common import *
import time
for t1, dt in [(0.1,0.01),(0.11,0.01),(0.03,0.01),(0.07,0.01),(0.035, 0.005),(0.06,0.02),(0.1, 0.03)]:
    row=[]
    for S in [Moreau, Rattle, BackwardEuler, DualStormerVerlet, ScipyIVP, ScipyDAE]:
        system,_,_ = double_pendulum(1)
        with warnings.catch_warnings():
            warnings.simplefilter("ignore")
            t0=time.time()
            try:
                sol = quiet(lambda: S(system, t1, dt).solve())
                row.append((S.__name__[:6], len(sol.t), round(float(sol.t[-1]),6), round(time.time()-t0,2)))
            except Exception as e:
                row.append((S.__name__[:6], "EXC", str(e)[:30]))
    print(t1, dt, row)
