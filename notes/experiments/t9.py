from common import *
import time
warnings.simplefilter("ignore")
def run(S, n=2, dt=5e-3, N=100, opts=None, **kw):
    system,bodies,joints = double_pendulum(n, alpha0=np.pi/3)
    args = dict(options=opts) if opts is not None and S not in (ScipyIVP, ScipyDAE) else {}
    t0=time.time()
    solver = S(system, N*dt, dt, **args, **kw)
    rec=[]
    if S is Moreau:
        orig = solver.step
        def step():
            r = orig(); rec.append((solver.tn12, solver.qn12.copy(), r[3].copy())); return r
        solver.step = step
    sol = quiet(solver.solve)
    el=time.time()-t0
    g = np.array([np.abs(system.g(t,q)).max() for t,q in zip(sol.t, sol.q)])
    gd = np.array([np.abs(system.g_dot(t,q,u)).max() for t,q,u in zip(sol.t, sol.q, sol.u)])
    qn = np.array([abs(np.linalg.norm(q[b.qDOF][3:])-1) for q in sol.q for b in bodies]).max()
    out = dict(solver=S.__name__, el=round(el,2), gmax=g.max(), gdmax=gd.max(), qnorm=qn)
    if rec:
        out["gd_mid"] = max(np.abs(system.g_dot(t,q,u)).max() for t,q,u in rec)
    if sol.u_dot is not None and S in (ScipyIVP,):
        r=[]
        for t,q,u,ud,lg in zip(sol.t, sol.q, sol.u, sol.u_dot, sol.la_g):
            r.append(np.abs(system.M(t,q)@ud - system.h(t,q,u) - system.W_g(t,q)@lg).max())
        gdd = max(np.abs(system.g_ddot(t,q,u,ud)).max() for t,q,u,ud in zip(sol.t, sol.q, sol.u, sol.u_dot))
        out["eom"]=max(r); out["gdd"]=gdd
    return out
tight = SolverOptions(newton_atol=1e-10, newton_rtol=1e-10, fixed_point_atol=1e-10, fixed_point_rtol=1e-10)
for S in [Rattle, BackwardEuler, Moreau, DualStormerVerlet, ScipyIVP, ScipyDAE]:
    print(run(S))
    if S not in (ScipyIVP, ScipyDAE): print("  tight", run(S, opts=SolverOptions(newton_atol=1e-10, newton_rtol=1e-10, fixed_point_atol=1e-10, fixed_point_rtol=1e-10)))
print(run(DualStormerVerlet, accelerated=False))
print(run(DualStormerVerlet, linear_solver="LU"))
print(run(ScipyDAE, rtol=1e-6, atol=1e-8))
