from common import *
warnings.simplefilter("ignore")
# C24 restart experiment
for S in [Rattle, Moreau, BackwardEuler]:
    for n, spring in [(1,False),(2,False),(1,True)]:
        system,_,joints = double_pendulum(n, spring=spring, alpha0=np.pi/3)
        dt=0.005; N=40; k=17
        full = quiet(lambda: S(system, N*dt, dt).solve())
        sysA,_,_ = double_pendulum(n, spring=spring, alpha0=np.pi/3)
        part = quiet(lambda: S(sysA, k*dt, dt).solve())
        kk = len(part.t)-1
        sysB = sysA.deepcopy()
        try:
            quiet(lambda: sysB.set_new_initial_state(part.q[-1], part.u[-1], t0=part.t[-1]))
            rest = quiet(lambda: S(sysB, N*dt, dt).solve())
            m = min(len(rest.t), len(full.t)-kk)
            err = np.max(np.abs(rest.q[:m]-full.q[kk:kk+m]))
            print(S.__name__, n, spring, "steps part", kk, "len rest", len(rest.t), "len full", len(full.t), "max err", err, "t_end", rest.t[-1], full.t[-1])
        except BaseException as e:
            print(S.__name__, n, spring, "EXC", type(e).__name__, str(e)[:80])
