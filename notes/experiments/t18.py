from common import *
from cardillo.contacts import Sphere2Sphere, Sphere2Plane
warnings.simplefilter("ignore")
def scene(rng, common_e=True):
    s = System(); n = rng.integers(2,4); bodies=[]
    e = rng.choice([0,0.5,1.0, rng.uniform(0,1)])
    for i in range(n):
        r = rng.uniform(0.05,0.2); m = rng.uniform(0.2,3)
        pos = np.array([i*0.5+rng.uniform(-0.03,0.03), rng.uniform(-0.05,0.05), r + rng.uniform(0.0,0.2)])
        vel = rng.normal(size=3)*np.array([1.0,0.3,1.0]); vel[0] += (1-i)*1.0
        if rng.random()<0.5:
            b = RigidBody(m, 0.4*m*r*r*np.eye(3), q0=np.concatenate([pos,[1,0,0,0]]), u0=np.concatenate([vel, rng.normal(size=3)*5]), name=f"b{i}")
        else:
            b = PointMass(m, q0=pos, u0=vel, name=f"b{i}")
        b._r=r; bodies.append(b); s.add(b)
        s.add(Sphere2Plane(s.origin, b, mu=0, r=r, e_N=e if common_e else rng.uniform(0,1), name=f"c{i}"))
    for i in range(n-1):
        s.add(Sphere2Sphere(bodies[i], bodies[i+1], bodies[i]._r, bodies[i+1]._r, mu=0, e_N=e if common_e else rng.uniform(0,1), name=f"ss{i}"))
    quiet(s.assemble); return s
if __name__=="__main__":
  for common in [True, False]:
   for S in [Moreau, Rattle, BackwardEuler, DualStormerVerlet]:
     worst=0; nimp=0; fails=0
     for seed in range(40):
         rng=np.random.default_rng(seed); s=scene(rng, common); dt=10**rng.uniform(-3,-2)
         try: sol = quiet(lambda: S(s, 150*dt, dt).solve())
         except Exception as ex: fails+=1; continue
         M = s.M(0,s.q0).toarray()
         T = np.array([0.5*u@M@u for u in sol.u])
         inc = np.max((T[1:]-T[:-1])/(T[:-1]+1e-12))
         nimp += int((sol.P_N[1:]>1e-10).any())
         worst=max(worst,inc)
     print("common_e",common, S.__name__, "worst rel increase", worst, "runs with impacts", nimp, "fails", fails)
