import numpy as np, warnings, io, contextlib
from cardillo import System
from cardillo.discrete import RigidBody, PointMass, Frame
from cardillo.constraints import Revolute, Spherical
from cardillo.forces import Force
from cardillo.force_laws import Spring, KelvinVoigtElement
from cardillo.math import A_IB_basic, cross3, Spurrier
from cardillo.solver import *

def double_pendulum(n=2, spring=False, alpha0=np.pi/2, omega0=0.0, l=1.0, m=1.0, g=9.81):
    system = System()
    B_Theta = np.diag([m*l*l/12, 1e-3, m*l*l/12])
    prev = system.origin
    r_OJ = np.zeros(3)
    A = A_IB_basic(alpha0).z
    bodies=[]; joints=[]
    omega = np.array([0,0,omega0])
    vJ = np.zeros(3)
    for i in range(n):
        r_OC = r_OJ - 0.5*l*A[:,1]
        vC = vJ + cross3(omega, r_OC - r_OJ)
        q0 = np.concatenate([r_OC, Spurrier(A)])
        u0 = np.concatenate([vC, omega])  # B_omega = A^T omega = omega (z axis)
        rb = RigidBody(m, B_Theta, q0, u0, name=f"rb{i}")
        j = Revolute(prev, rb, axis=2, r_OJ0=r_OJ.copy(), A_IJ0=np.eye(3), name=f"rev{i}")
        system.add(rb, j, Force(np.array([0,-m*g,0]), rb, name=f"grav{i}"))
        if spring:
            system.add(Spring(j, k=5.0, l_ref=0.0, compliance_form=False, name=f"spring{i}"))
        bodies.append(rb); joints.append(j)
        vJ = vJ + cross3(omega, -l*A[:,1])
        r_OJ = r_OJ - l*A[:,1]
        prev = rb
    with contextlib.redirect_stdout(io.StringIO()):
        system.assemble()
    return system, bodies, joints

def quiet(f, *a, **k):
    with contextlib.redirect_stdout(io.StringIO()), contextlib.redirect_stderr(io.StringIO()):
        return f(*a, **k)
