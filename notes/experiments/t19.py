from t18 import *
for seed in range(40):
    rng=np.random.default_rng(seed); s=scene(rng, True); dt=10**rng.uniform(-3,-2)
    sol = quiet(lambda: Rattle(s, 150*dt, dt).solve())
    M = s.M(0,s.q0).toarray()
    T = np.array([0.5*u@M@u for u in sol.u])
    rel = (T[1:]-T[:-1])/(T[:-1]+1e-12)
    k = np.argmax(rel)
    if rel[k] > 1e-9:
        print("seed", seed, "dt", dt, "step", k+1, "rel inc", rel[k], "T", T[k], T[k+1])
        print("  P_N at step", sol.P_N[k+1], "prev", sol.P_N[k], "e_N", s.e_N)
        print("  g_N k", s.g_N(sol.t[k], sol.q[k]), "k+1", s.g_N(sol.t[k+1], sol.q[k+1]))
        print("  g_N_dot k", s.g_N_dot(sol.t[k], sol.q[k], sol.u[k]), "k+1", s.g_N_dot(sol.t[k+1], sol.q[k+1], sol.u[k+1]))
