from common import *
from cardillo.contacts import Sphere2Plane
import cardillo.solver.backward_euler as be_mod, cardillo.solver.statics as st_mod
import cardillo.math.fsolve as fs_mod
import dataclasses
real = fs_mod.fsolve
calls = {"n":0}
fail_at = set()
def fsolve_sim(fun, x0, jac=None, fun_args=(), jac_args=(), inexact=False, options=SolverOptions()):
    calls["n"] += 1
    if calls["n"] in fail_at:
        options = dataclasses.replace(options, newton_max_iter=1, newton_atol=1e-300, newton_rtol=1e-300)
    return real(fun, x0, jac=jac, fun_args=fun_args, jac_args=jac_args, inexact=inexact, options=options)
be_mod.fsolve = fsolve_sim
def scene():
    s = System()
    b = PointMass(1.0, q0=np.array([0,0,0.1]), u0=np.array([0.5,0,0.]))
    f = Force(np.array([0,0,-9.81]), b)
    c = Sphere2Plane(s.origin, b, mu=0.3, r=0.1, e_N=0.0, e_F=0.0)
    s.add(b,f,c); quiet(s.assemble)
    return s
for target in [3, 4, 5, 6, 7]:
    calls["n"]=0; fail_at.clear(); fail_at.add(target)
    s = scene()
    with warnings.catch_warnings(record=True) as w:
        warnings.simplefilter("always")
        try:
            sol = quiet(lambda: BackwardEuler(s, 0.1, 0.01).solve())
            print("target", target, "returned len", len(sol.t), "t_end", sol.t[-1], "warnings:", [str(x.message)[:60] for x in w])
        except Exception as e:
            print("target", target, "EXC", e)
