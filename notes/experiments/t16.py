from common import *
import time
from cardillo.rods import RectangularCrossSection, Simo1986, Harsch2021
from cardillo.rods.cosseratRod import make_CosseratRod
from cardillo.constraints import RigidConnection
from cardillo.forces import Force, B_Moment
from cardillo.math import e1, e2, e3, Exp_SO3, Spurrier, Exp_SO3_quat, quatprod
warnings.simplefilter("ignore")
def cant(interp, mixed, constraints, R=np.eye(3), c=np.zeros(3), nel=2, nls=3, law=Harsch2021):
    Rod = make_CosseratRod(interpolation=interp, mixed=mixed, constraints=constraints)
    length = 2*np.pi
    cs = RectangularCrossSection(length/100, length/100)
    mat = law(np.array([5,1,1.]), np.array([0.5,2,2.]))
    system = System()
    q0 = Rod.straight_configuration(nel, length, r_OP0=c, A_IB0=R)
    rod = Rod(cs, mat, nel, Q=q0, q0=q0)
    frame = Frame(r_OP=c, A_IB=R)
    clamp = RigidConnection(frame, rod, xi2=(0,))
    P = lambda t: 2*(10*t)/length**2
    system.add(frame, rod, clamp, Force(lambda t: R@(-P(t)*e2 + 0.3*P(t)*e3), rod, (1,)), B_Moment(lambda t: 2.5*P(t)*e3, rod, (1,)))
    quiet(lambda: system.assemble(options=SolverOptions(compute_consistent_initial_conditions=False)))
    solver = Newton(system, n_load_steps=nls, verbose=False, options=SolverOptions(newton_max_iter=30, newton_atol=1e-10, newton_rtol=1e-10))
    sol = quiet(solver.solve)
    return system, rod, sol
rng = np.random.default_rng(1)
R = Exp_SO3(rng.normal(size=3)); c = rng.normal(size=3)
for interp in ["Quaternion","SE3","R12"]:
    for mixed in [False, True]:
        for cons in [None,[1,2]]:
            law = Simo1986 if mixed else Harsch2021
            s0, r0, sol0 = cant(interp, mixed, cons, law=law)
            s1, r1, sol1 = cant(interp, mixed, cons, R=R, c=c, law=law)
            # compare tip position and orientation
            q0 = sol0.q[-1][r0.qDOF]; q1 = sol1.q[-1][r1.qDOF]
            err=0
            for xi in [0.0,0.3,0.7,1.0]:
                p0 = r0.r_OP(1.0, q0[r0.local_qDOF_P((xi,))], (xi,)); p1 = r1.r_OP(1.0, q1[r1.local_qDOF_P((xi,))], (xi,))
                A0 = r0.A_IB(1.0, q0[r0.local_qDOF_P((xi,))], (xi,)); A1 = r1.A_IB(1.0, q1[r1.local_qDOF_P((xi,))], (xi,))
                err = max(err, np.abs(R@p0+c-p1).max(), np.abs(R@A0-A1).max())
            print(interp, mixed, cons, "len", len(sol0.t), len(sol1.t), "frame-indiff err", err, "tipdisp", np.linalg.norm(r0.r_OP(1.0, q0[r0.local_qDOF_P((1.0,))], (1.0,)) - np.array([2*np.pi,0,0])))
