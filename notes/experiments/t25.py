from common import *
from cardillo.constraints import Spherical
warnings.simplefilter("ignore")
# closed loop: 3-link chain hanging from origin via revolute/spherical joints, last body tip connected back to a fixed frame by spherical joint
def loop(proj=True, seed=0):
    rng=np.random.default_rng(seed)
    system = System()
    l=1.0; m=1.0
    B_Theta = np.diag([m*l*l/12, 1e-2, m*l*l/12])
    # polygon points
    P = [np.zeros(3), np.array([0.8,-0.6,0.1]), np.array([1.7,-0.3,-0.1]), np.array([2.2,0.5,0.0])]
    prev = system.origin; bodies=[]
    for i in range(3):
        a=P[i]; b=P[i+1]; c=0.5*(a+b)
        ey = (a-b)/np.linalg.norm(a-b)
        ex = np.cross(ey, [0,0,1.0]); ex/=np.linalg.norm(ex); ez=np.cross(ex,ey)
        A = np.vstack([ex,ey,ez]).T
        rb = RigidBody(m, B_Theta, np.concatenate([c, Spurrier(A)]), np.zeros(6), name=f"rb{i}")
        system.add(rb, Spherical(prev, rb, r_OJ0=a, name=f"sph{i}"), Force(np.array([0,-m*9.81,0]), rb, name=f"g{i}"))
        bodies.append(rb); prev=rb
    anchor = Frame(r_OP=P[3], name="anchor")
    system.add(anchor, Spherical(bodies[-1], anchor, r_OJ0=P[3], name="close"))
    quiet(system.assemble)
    if proj:
        # project random velocity onto constraint null space, M-orthogonal
        W = system.W_g(system.t0, system.q0).toarray(); M = system.M(system.t0, system.q0).toarray()
        u = rng.normal(size=system.nu)
        Minv = np.linalg.inv(M)
        lam = np.linalg.solve(W.T@Minv@W, W.T@u)
        u = u - Minv@W@lam
        for b in bodies: b.u0 = u[b.uDOF]
        quiet(system.assemble)
    return system
for S in [Rattle, Moreau, BackwardEuler, DualStormerVerlet, ScipyIVP, ScipyDAE]:
    try:
        system = loop()
        sol = quiet(lambda: S(system, 0.2, 0.005).solve())
        g = max(np.abs(system.g(t,q)).max() for t,q in zip(sol.t, sol.q))
        print(S.__name__, "ok nla_g", system.nla_g, "nu", system.nu, "max g", g)
    except Exception as e:
        print(S.__name__, "EXC", type(e).__name__, str(e)[:80])
