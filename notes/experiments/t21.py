from common import *
warnings.simplefilter("ignore")
tight = lambda: SolverOptions(newton_atol=1e-12, newton_rtol=1e-12, fixed_point_atol=1e-12, fixed_point_rtol=1e-12)
for n, spring, dt, N in [(1,False,5e-3,100),(2,False,5e-3,100),(2,True,5e-3,100),(2,True,1e-2,200),(3,True,2e-3,150)]:
    system,bodies,joints = double_pendulum(n, alpha0=np.pi/3, spring=spring, omega0=0.7)
    sol = quiet(Rattle(system, N*dt-1e-9, dt, options=tight()).solve)
    sys2 = system.deepcopy()
    quiet(lambda: sys2.set_new_initial_state(sol.q[-1], -sol.u[-1], t0=0.0))
    sol2 = quiet(Rattle(sys2, N*dt-1e-9, dt, options=tight()).solve)
    # quaternion sign ambiguity: compare rotation matrices & positions
    eq = np.abs(sol2.q[-1]-sol.q[0]).max(); eu = np.abs(sol2.u[-1]+sol.u[0]).max()
    print(n, spring, dt, N, "rev err q", eq, "u", eu)
