#!/bin/bash
# usage: tools/try_mutant.sh <dir with patch.diff> "<props>" "<seeds>" [extra cardsim args]
#
# Runs the quick checks against cardillo WITH the seeded change.  The change is
# applied to a private scratch worktree of /repo's HEAD (outside /repo and
# /verif, removed afterwards) that is put first on PYTHONPATH, so /repo itself
# is never touched and other runs are not disturbed.  Equivalent to
#   git -C /repo apply <patch>; <checks>; git -C /repo checkout -- .
# (use MUTANT_IN_REPO=1 for exactly that procedure).
set -u
DIR=$(readlink -f "$1")
PROPS=${2:-"C14"}
SEEDS=${3:-"1"}
EXTRA=${4:-""}
if [ "${MUTANT_IN_REPO:-0}" = "1" ]; then
  cd /repo || exit 2
  if ! git diff --quiet -- cardillo; then echo "/repo/cardillo is dirty; refusing"; exit 2; fi
  git apply "$DIR/patch.diff" || { echo "patch does not apply"; exit 2; }
  trap 'git -C /repo checkout -- cardillo' EXIT
  TREE=/repo
else
  mkdir -p /tmp/wt
  TREE=$(mktemp -d /tmp/wt/eval.XXXXXX)
  rmdir "$TREE"
  git -C /repo worktree add -q --detach "$TREE" HEAD || exit 2
  trap 'git -C /repo worktree remove --force "$TREE" >/dev/null 2>&1' EXIT
  git -C "$TREE" apply "$DIR/patch.diff" || { echo "patch does not apply to HEAD"; exit 2; }
fi
cd /verif
for s in $SEEDS; do
  for p in $PROPS; do
    out=$(PYTHONPATH=$TREE CARDSIM_REPO=$TREE VERIF_SEED=$s CARDSIM_EVIDENCE_DIR=/tmp/wt/evidence_scratch timeout 3000 /venv/bin/python -m cardsim check $p $EXTRA 2>&1)
    rc=$?
    echo "== $p seed=$s exit=$rc"
    echo "$out" | grep -E "^cardsim check|^VIOLATION|^  class=|^KNOWN-FINDING|^summary|HARNESS-ERROR" | cut -c1-400 | head -12
  done
done
