#!/bin/bash
# usage: tools/try_mutant.sh <dir with patch.diff> "<props>" "<seeds>" [extra cardsim args]
# Applies the patch to /repo, runs the quick checks, and ALWAYS reverts /repo afterwards.
set -u
DIR=$1
PROPS=${2:-"C14"}
SEEDS=${3:-"1"}
EXTRA=${4:-""}
cd /repo || exit 2
if ! git diff --quiet -- cardillo; then echo "/repo/cardillo is dirty; refusing"; exit 2; fi
git apply --check "$DIR/patch.diff" || { echo "patch does not apply"; exit 2; }
git apply "$DIR/patch.diff"
trap 'git -C /repo checkout -- cardillo' EXIT
cd /verif
for s in $SEEDS; do
  for p in $PROPS; do
    out=$(VERIF_SEED=$s timeout 3000 /venv/bin/python -m cardsim check $p $EXTRA 2>&1)
    rc=$?
    echo "== $p seed=$s exit=$rc"
    echo "$out" | grep -E "^VIOLATION|^  class=|^KNOWN-FINDING|^summary|HARNESS-ERROR" | cut -c1-400 | head -12
  done
done
