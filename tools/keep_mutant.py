#!/usr/bin/env python3
"""usage: keep_mutant.py <id> <worktree> <property> '<needs>' '<caught_by json>' ['<note>']"""
import json, os, shutil, sys, subprocess
mid, wt, prop, needs, caught = sys.argv[1:6]
note = sys.argv[6] if len(sys.argv) > 6 else ""
d = f"/verif/seeded/{mid}"
os.makedirs(d, exist_ok=True)
for f in ("patch.diff", "demo.py", "notes.md"):
    shutil.copy(os.path.join(wt, "_mutant", f), os.path.join(d, f))
confirm = open(f"/tmp/wt/confirm_{mid}.txt").read().strip() if os.path.exists(f"/tmp/wt/confirm_{mid}.txt") else ""
base = subprocess.run(["git", "-C", "/repo", "rev-parse", "--short", "HEAD"], capture_output=True, text=True).stdout.strip()
meta = {
    "id": mid,
    "breaks_property": prop,
    "origin": "independent sub-agent given only the property text and a scratch worktree (nothing from /verif)",
    "needs_to_manifest": needs,
    "confirmed_by_me": {
        "how": "tools/confirm_mutant.sh <scratch worktree>: demo.py with the change (must exit 1), with the change reverted by `git apply -R` (must exit 0), pinned suite with the change (`pytest -n 4 test`, must be 85 passed)",
        "result": confirm,
    },
    "checks_run": "tools/try_mutant.sh /verif/seeded/%s \"<props>\" \"<seeds>\" (git -C /repo apply patch.diff; python -m cardsim check <prop>; git -C /repo checkout -- cardillo)" % mid,
    "caught_by": json.loads(caught),
    "patch_applies_to_repo_rev": base,
    "note": note,
}
json.dump(meta, open(os.path.join(d, "meta.json"), "w"), indent=1)
print("kept", d)
