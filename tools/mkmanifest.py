#!/usr/bin/env python3
"""Regenerates /verif/MANIFEST.json from the table below (keeps it valid)."""
import json
import os
import subprocess
import sys

HERE = os.path.dirname(os.path.dirname(os.path.abspath(__file__)))
PY = "/venv/bin/python"

NA = {
    "C01": "pure algebraic identities of quaternion functions over R^4: no schedule, clock, fault, I/O or cross-call state; input sampling would be property-based testing (DESIGN 6)",
    "C02": "round trips of pure one-argument numeric maps (Exp/Log/Spurrier/SE(3)): nothing to simulate (DESIGN 6)",
    "C03": "derivative routines vs. derivatives of pure maps: a numerical-differentiation question with no history or fault (DESIGN 6)",
    "C04": "stateless kinematic identities at a given (t,q,u,u_dot); the only state involved (LRU caches) is decided under C26 (DESIGN 6)",
    "C05": "stateless joint identities incl. off-manifold states; the stateful members are decided under C25 (angle tracking) and C24 (re-definition on restart) (DESIGN 6)",
    "C06": "stateless contact kinematics and their derivatives; Sphere2Sphere basis/caches are decided under C26 (DESIGN 6)",
    "C07": "pointwise energy/passivity identities of force elements in (q,u) (DESIGN 6)",
    "C08": "pointwise Jacobian identities of force elements and actuators (DESIGN 6)",
    "C09": "one assembly of one configuration, no history or fault; persistence of l_ref across re-assembly is covered by C24's model-identity oracle (DESIGN 6)",
    "C10": "pointwise objectivity / self-equilibrium identities of the rod discretisation (DESIGN 6)",
    "C11": "pointwise derivative consistency of the rod discretisation (DESIGN 6)",
    "C12": "material laws as gradients of energies: pure functions of strain (DESIGN 6)",
    "C13": "basis / quadrature / connectivity: pure combinatorics and polynomial exactness (DESIGN 6)",
    "C22": "helper contract of fsolve / fixed_point_iteration* / approx_fprime is a property of pure functions of (map, x0, tolerances); their failure branch is exercised by C21's injector and the DSV consequence shows under C17 (DESIGN 6)",
    "C27": "prox maps as Euclidean projections: pure convex-analysis identities (DESIGN 6)",
    "C28": "URDF import is a pure function of the file's content; the property names no fault, ordering or history (DESIGN 6)",
}

# property -> (engine module, level, design ref, level text, level note, technique)
CHECKS = {
    "C14": (
        "assembly",
        "exploration",
        "DESIGN.md 5.1",
        "seeded search over add/remove/pop/extend/assemble/evaluate histories on the real System with real and fake contributions; registry checked against a list+dict model after every operation, index sets recomputed by the model, every System evaluation method compared with a dense reference scatter (step_callback as the sequential application of the contributions' callbacks), system-level data derived during assembly (e_N, e_F, constant force reservoir) compared with the contributions' own, assemble-again compared bit for bit, arrays returned at one state re-checked after the system was evaluated at another (no shared result storage). Sampled histories, not exhaustive.",
        "trusts the contributions' local methods (only their placement is checked), numpy, and the harness's own connectivity rules for interaction contributions; assembly runs with compute_consistent_initial_conditions=False",
        "deterministic simulation: seeded operation-history machine vs. executable reference model (single-copy list + dense scatter), ddmin-shrunk replay files",
    ),
    "C15": (
        "coo",
        "exploration",
        "DESIGN.md 5.2",
        "seeded search over block-write histories (all index and value kinds, element types float64 / int / float32 / bool / Python lists, C / Fortran / strided / transposed layouts, overlaps, nested and persistent sub-containers, conversions interleaved with writes, caller-owned index buffers refilled in place, malformed writes as injected faults after which the container must still convert to the accepted blocks) against a dense accumulator with exact arithmetic; sampled, not exhaustive.",
        "trusts numpy's np.add.at and scipy.sparse conversions used by the container itself; values are dyadic so sums are exact",
        "deterministic simulation: seeded write-history machine vs. dense reference model with malformed-write fault injection, ddmin-shrunk replay files",
    ),
    "C25": (
        "revolute",
        "exploration",
        "DESIGN.md 5.11",
        "seeded search over rotation/query/rate/wiggle/reset histories (up to 300 ops, many full turns both ways, quadrant-boundary landings, arbitrary also decreasing time stamps, rate queries before angle queries, injected queries with non-finite iterates between samples) on a real Revolute inside a real assembled System against an accumulator model; reset is decided by a freshly built twin. Sampled, not exhaustive.",
        "trusts the harness's own quaternion algebra (cardsim/rot.py) and RigidBody.A_IB; increments between queries stay below a quarter turn by construction",
        "deterministic simulation: seeded operation-history machine vs. accumulator reference model and fresh-twin oracle, ddmin-shrunk replay files",
    ),
    "C26": (
        "cache",
        "exploration",
        "DESIGN.md 5.12",
        "seeded search over interleavings of memoised evaluations (argument pools sized so that hits, evictions and re-visits occur) with step callbacks, reference-strain updates and re-assembly, fresh argument arrays or caller-owned buffers refilled in place, on RigidBody, Sphere2Sphere (incl. a partner moved explicitly in time and two contacts with identical local coordinates), all Cosserat rod formulations and Mesh1D; oracle is an unmemoised twin receiving the same history (exact equality; caches living on a class are emptied before each twin evaluation). Sampled, not exhaustive.",
        "trusts cachetools (LRUCache(maxsize=0) never stores; the counting subclass used on the memoised side does not change behaviour)",
        "deterministic simulation: seeded interleaving machine under cache pressure vs. unmemoised twin (differential oracle), ddmin-shrunk replay files",
    ),
    "C16": (
        "initcond",
        "exploration",
        "DESIGN.md 5.3",
        "seeded sessions whose initial-condition solve is monitored at the first assemble and at states reached by running RATTLE and re-initialising (resting / sliding / sticking contacts also on planes moved tangentially in time, chains with compliance and actuators, Systems with an earlier assembly of other bodies), plus injected corrupted-restart faults (velocity, position, penetration, approaching contact) that must be rejected, clean states that must be accepted, and forced / organic failures of the initial-condition contact fixed point with continue_with_unconverged on / off (raise, warn, or consistent values). Chains may carry a user-defined nonholonomic constraint. Sampled, not exhaustive.",
        "trusts the System's model functions (M, h, W_*, g*, gamma_F*) used to evaluate the equations of motion; assembly runs with fixed_point_atol=1e-10, monitor tolerance 1e-6*(1+scale)",
        "deterministic simulation: seeded sessions with per-assembly monitors and corrupted-restart fault injection (F3c), ddmin-shrunk replay files",
    ),
    "C17": (
        "constraints",
        "exploration",
        "DESIGN.md 5.4",
        "seeded sessions of all six dynamic solvers on random open / closed chains (parents as first or second joint partner, drives starting from rest, user-defined nonholonomic constraints), on Cosserat rods of every formulation, on chains next to an unrelated closed contact, and on contact scenes that continue after forced fixed-point / Newton failures, with buggified legal solver knobs and step sizes over three decades; the solver-specific constraint / unit-quaternion / equation-of-motion invariant is evaluated at every stored step (Moreau at the recorded midpoint) against a bound reconstructed from the solver's own stopping criterion. Sampled; no adversarial schedule exists for this property, the 'schedule' is the knob / step-size / tolerance draw.",
        "trusts the System's constraint functions; organic solver failures and redundantly constrained scenes are discards (counted); bounds c*(atol+rtol*scale)*sqrt(n), c=50",
        "deterministic simulation: seeded solver runs under a step-boundary seam with per-step invariant monitors and buggified knobs, ddmin-shrunk replay files",
    ),
    "C18": (
        "contactlaws",
        "exploration",
        "DESIGN.md 5.5",
        "seeded sessions of the four nonsmooth solvers on sphere / plane scenes (normal and tangential restitution and friction in [0,1], resting, sliding, spinning, flying starts, anisotropic inertia, floors moved explicitly in time up to 3 g, masses rescaled over eleven decades for Moreau) with buggified knobs; every stored step is checked for the discrete Signorini-Coulomb laws at the level the scheme enforces them (recorded midpoints for Moreau / DSV) and force-free frictionless scenes for kinetic-energy monotonicity. Sampled, not exhaustive.",
        "trusts the contact kinematics (g_N, g_N_dot, gamma_F) of the System; 'closed' is decided by the harness from the gap; isotropic friction; e_F only on sphere-plane contacts; percussion tolerances relative to the scene's mass scale; energy clause only for a common restitution coefficient",
        "deterministic simulation: seeded solver runs under a step-boundary seam with recorded midpoint configurations and per-step invariant monitors, ddmin-shrunk replay files",
    ),
    "C20": (
        "solution",
        "exploration",
        "DESIGN.md 5.7",
        "seeded runs of all eight solvers over a sweep of (t0, t1, dt) including decimal-exact multiples that are inexact in binary, tiny runs and non-zero initial times, with injected truncation faults (forced Newton failure, SciPy back-end stop); grid start / step / end point, field shapes, iteration (after other Solutions with other field sets were iterated in the process, records kept beyond the loop, concurrent iterations) and save -> load through a real file (incl. systems with Cosserat rods) are checked on every returned Solution. Sampled, not exhaustive.",
        "Riks' arc-length parameter is exempt from the grid clauses; dill round trip through a private temp directory",
        "deterministic simulation: seeded solver runs with truncation fault injection and a real-file save/load seam, contract checked on every returned Solution, ddmin-shrunk replay files",
    ),
    "C21": (
        "nonconv",
        "fault_enumeration",
        "DESIGN.md 5.8",
        "for each sampled session a fault-free pilot run enumerates, through the guarded decision hook, every loop instance reached (fsolve call j of step k, each fixed-point loop of step k); thorough forces every one of them (quick: a seeded sample of <= 6) to 'never converges' in a fresh run through the real code path, SciPy back ends get a back-end stop; the reaction (raise / warn naming the time and return converged steps only / warn and continue) is judged over the recorded event history; differential runs decide 'does not silently ignore' for contacts and actuators; a third of the contact sessions use a prox parameter beyond the contraction range so that fixed points fail organically; Newton budgets of 1-2 iterations fail organically in both Newton variants of RATTLE and every nonlinear solve is held to the configured budget; fault F1n lets a user force law evaluate to NaN from a time / load level on (a solve reporting success with a non-finite residual is a failed solve passed off as converged). Enumeration is complete per session (up to 80 points), sessions are sampled.",
        "trusts the hook (add-only, reports every decision; forced decisions run the loop out of budget through the real branch); 'names the time' = number equal to the stop time / failed step time (3 digits) or the step index",
        "deterministic simulation: convergence-fault injection at every enumerated injection point of a pilot run (decision hook seam), reaction oracle over the event history, ddmin-shrunk replay files",
    ),
    "C24": (
        "restart",
        "fault_enumeration",
        "DESIGN.md 5.10",
        "crash / restart fault at every split step of a sampled session (thorough; quick: 3 seeded split steps) on chains, revolute-spring systems, contact scenes, Cosserat rods and nonholonomic constraints, arbitrary time origins (splits exactly at t = 0), system copy taken before the run, after the first leg or after the whole uninterrupted run (optionally re-initialised twice for the same time, after another rod model was copied in the process), durable state handed over in memory or through save/load on disk; oracles: second leg equals the uninterrupted run, model identity against a system the harness builds itself from the body-fixed plan at the restart state, re-initialisation must not raise. Sessions are sampled; split points are enumerated per session.",
        "trusts the harness-built model (scenes.build with state override) and the harness's own unwrapped revolute angles; velocity-level solvers restart with compute_consistent_initial_conditions=False",
        "deterministic simulation: crash/restart fault injection at enumerated split steps with durable-state seam (memory / file), differential oracle against the uninterrupted run and an independently built model, ddmin-shrunk replay files",
    ),
    "C19": (
        "rattle_sym",
        "exploration",
        "DESIGN.md 5.6",
        "seeded conservative scenes run with RATTLE at Newton tolerance 1e-11: forward / reverse-velocities / back histories (reversed system built by the harness at the reached state, or deepcopy + set_new_initial_state; optional crash/restart inside the forward leg) must return to the start (springs in force or compliance form, very fine to ordinary steps, a user-defined contribution with configuration-dependent mass matrix); a RATTLE state rejected by assembly is a violation; dt vs dt/2 energy-error ratio; long-horizon runs for secular energy drift (linear trend vs oscillation amplitude). Sampled, not exhaustive; the 'schedule' is the scene / step-size / history draw.",
        "kinetic energy 0.5 u^T M u and System.E_pot as energy; reversibility tolerance 1e-7*(1+scale); order ratio only where the coarse error exceeds 1e-8*(1+|E|); drift clause only on single-body pendulum-like scenes (many periods inside the horizon)",
        "deterministic simulation: seeded advance / reverse / restart histories checked against time-reversal symmetry and Richardson / drift statistics of the recorded energy history, ddmin-shrunk replay files",
    ),
    "C23": (
        "statics",
        "exploration",
        "DESIGN.md 5.9",
        "seeded static problems (clamped cantilevers for every rod formulation, rigid body on springs and dampers with non-zero initial velocities, sphere pressed onto a plane, Riks on truss and cantilever); every returned load step / arc-length point is checked with harness-recomputed residuals against the solver's own scaled criterion; forced Newton failure at a seeded load step; frame indifference by solving the rigidly moved problem. Sampled, not exhaustive.",
        "trusts the System's model functions for the residual; bound 50 x the reconstructed solver criterion; frame-indifference tolerance 1e-7*(1+scale)",
        "deterministic simulation: seeded load-step runs under the load-step seam with per-point equilibrium monitors, convergence-fault injection and a moved-twin differential oracle, ddmin-shrunk replay files",
    ),
    "C29": (
        "export",
        "exploration",
        "DESIGN.md 5.13",
        "seeded sessions (multibody runs with arbitrary time origins, meshed bodies, static rod solutions) followed by export operations with random fps, overwrite flag, pre-existing folders, repeated exports, lists, System.export, long animations (> 1000 frames), standstill runs (identical coordinates in consecutive frames), solutions with non-unit quaternions, prefix-related and bracketed file names and injected export failures part-way (later exports must be unaffected); the written .pvd / .vtu files are read back with VTK's reader and compared with geometry recomputed by the harness from the solution at each exported frame's time. Sampled, not exhaustive.",
        "trusts VTK's reader and the harness's geometry formulas; rods are re-evaluated through their public r_OP / A_IB; points are Float32 (1e-6), data arrays 1e-9",
        "deterministic simulation: file-seam export / read-back with environment-state faults (pre-existing folders and files) against independently recomputed geometry, ddmin-shrunk replay files",
    ),
}

_P = "claimed in DESIGN.md; its check is still under construction in this round and is therefore not registered yet"
PENDING = {}

ENGINE_KIND = {
    "assembly": "operation-history machine (System registry / scatter) vs reference model",
    "coo": "operation-history machine (CooMatrix) vs dense model",
    "revolute": "operation-history machine (Revolute angle tracking) vs accumulator model",
    "cache": "interleaving machine (memoised vs unmemoised twin)",
    "initcond": "session engine: assembly monitor + corrupted-restart faults",
    "constraints": "session engine: per-step constraint monitors",
    "contactlaws": "session engine: per-step contact-law monitors",
    "solution": "session engine: Solution contract on every returned solution, truncation faults",
    "nonconv": "convergence-fault injector over pilot-enumerated injection points",
    "restart": "crash/restart injector over enumerated split steps",
    "rattle_sym": "history engine: advance / reverse / restart, order and drift statistics",
    "statics": "load-step engine: per-point equilibrium monitors, moved-twin oracle",
    "export": "file-seam engine: export / read-back",
}


def main():
    hooks_commits = []
    hc = os.path.join(HERE, "hooks_commits.txt")
    if os.path.exists(hc):
        hooks_commits = [l.split()[0] for l in open(hc) if l.strip() and not l.startswith("#")]
    man = {
        "version": 1,
        "setup_cmd": f'{PY} -c "import cardillo, numpy, scipy, cachetools, dill, vtk; import sys; sys.path.insert(0, \'/verif\'); import cardsim"',
        "hooks": {
            "guard": "CARDILLOPROJECT_CARDILLO_VERIF",
            "enable": "CARDILLOPROJECT_CARDILLO_VERIF=1 in the environment before cardillo is imported (python -m cardsim sets it and re-executes itself with PYTHONHASHSEED=0 and single-threaded BLAS); cardillo is an editable install, so every check imports /repo's current working tree in fresh interpreters",
            "baseline_off_cmd": "cd /repo && env -u CARDILLOPROJECT_CARDILLO_VERIF /venv/bin/python -m pytest -ra -q -p no:cacheprovider --timeout=900 --continue-on-collection-errors",
            "source_commits": hooks_commits,
            "add_only": True,
        },
        "engines": [],
        "checks": [],
        "not_applicable": [],
        "notes": "Technique family: deterministic simulation with fault injection (DESIGN.md). Exit protocol of every command: 0 held / 1 VIOLATION line / 2 harness error (never reported as a violation). Known findings: known_findings.json (read-only at run time). Replay: python -m cardsim replay <file>.",
    }
    engines = {}
    for prop, (eng, level, ref, text, note, tech) in sorted(CHECKS.items()):
        man["checks"].append(
            {
                "property_id": prop,
                "quick_cmd": f"cd /verif && timeout 1500 {PY} -m cardsim check {prop} --tier quick",
                "thorough_cmd": f"cd /verif && timeout 14000 {PY} -m cardsim check {prop} --tier thorough",
                "evidence_file": f"/verif/evidence/{prop}.json",
                "replay_cmd_template": f"cd /verif && {PY} -m cardsim replay {{path}}",
                "engine": eng,
                "level_claimed": {"category": level, "text": text, "design_ref": ref},
                "level_note": note,
                "technique": tech,
            }
        )
        engines.setdefault(eng, []).append(prop)
    for eng, props in sorted(engines.items()):
        man["engines"].append(
            {
                "name": eng,
                "path": f"/verif/cardsim/engines/{eng}.py",
                "serves_properties": props,
                "kind_free_text": ENGINE_KIND.get(eng, "session engine"),
            }
        )
    for prop, reason in sorted({**NA, **PENDING}.items()):
        if prop not in CHECKS:
            man["not_applicable"].append({"property_id": prop, "reason": reason})
    with open(os.path.join(HERE, "MANIFEST.json"), "w") as f:
        json.dump(man, f, indent=1)
    # every property accounted for exactly once
    ids = [json.loads(l)["id"] for l in open(os.path.join(HERE, "properties.jsonl"))]
    listed = [c["property_id"] for c in man["checks"]] + [n["property_id"] for n in man["not_applicable"]]
    assert sorted(ids) == sorted(listed), (sorted(set(ids) - set(listed)), sorted(set(listed) - set(ids)))
    print("MANIFEST.json written:", len(man["checks"]), "checks,", len(man["not_applicable"]), "not applicable")


if __name__ == "__main__":
    main()
