#!/usr/bin/env python3
"""Regenerates /verif/MANIFEST.json from the table below (keeps it valid)."""
import json
import os
import subprocess
import sys

HERE = os.path.dirname(os.path.dirname(os.path.abspath(__file__)))
PY = "/venv/bin/python"

NA = {
    "C01": "pure algebraic identities of quaternion functions over R^4: no schedule, clock, fault, I/O or cross-call state; input sampling would be property-based testing (DESIGN 6)",
    "C02": "round trips of pure one-argument numeric maps (Exp/Log/Spurrier/SE(3)): nothing to simulate (DESIGN 6)",
    "C03": "derivative routines vs. derivatives of pure maps: a numerical-differentiation question with no history or fault (DESIGN 6)",
    "C04": "stateless kinematic identities at a given (t,q,u,u_dot); the only state involved (LRU caches) is decided under C26 (DESIGN 6)",
    "C05": "stateless joint identities incl. off-manifold states; the stateful members are decided under C25 (angle tracking) and C24 (re-definition on restart) (DESIGN 6)",
    "C06": "stateless contact kinematics and their derivatives; Sphere2Sphere basis/caches are decided under C26 (DESIGN 6)",
    "C07": "pointwise energy/passivity identities of force elements in (q,u) (DESIGN 6)",
    "C08": "pointwise Jacobian identities of force elements and actuators (DESIGN 6)",
    "C09": "one assembly of one configuration, no history or fault; persistence of l_ref across re-assembly is covered by C24's model-identity oracle (DESIGN 6)",
    "C10": "pointwise objectivity / self-equilibrium identities of the rod discretisation (DESIGN 6)",
    "C11": "pointwise derivative consistency of the rod discretisation (DESIGN 6)",
    "C12": "material laws as gradients of energies: pure functions of strain (DESIGN 6)",
    "C13": "basis / quadrature / connectivity: pure combinatorics and polynomial exactness (DESIGN 6)",
    "C22": "helper contract of fsolve / fixed_point_iteration* / approx_fprime is a property of pure functions of (map, x0, tolerances); their failure branch is exercised by C21's injector and the DSV consequence shows under C17 (DESIGN 6)",
    "C27": "prox maps as Euclidean projections: pure convex-analysis identities (DESIGN 6)",
    "C28": "URDF import is a pure function of the file's content; the property names no fault, ordering or history (DESIGN 6)",
}

# property -> (engine module, level, design ref, level text, level note, technique)
CHECKS = {
    "C14": (
        "assembly",
        "exploration",
        "DESIGN.md 5.1",
        "seeded search over add/remove/pop/extend/assemble/evaluate histories on the real System with real and fake contributions; registry checked against a list+dict model after every operation, index sets recomputed by the model, every System evaluation method compared with a dense reference scatter, assemble-again compared bit for bit. Sampled histories, not exhaustive.",
        "trusts the contributions' local methods (only their placement is checked), numpy, and the harness's own connectivity rules for interaction contributions; assembly runs with compute_consistent_initial_conditions=False",
        "deterministic simulation: seeded operation-history machine vs. executable reference model (single-copy list + dense scatter), ddmin-shrunk replay files",
    ),
    "C15": (
        "coo",
        "exploration",
        "DESIGN.md 5.2",
        "seeded search over block-write histories (all index and value kinds, overlaps, nested containers, malformed writes as injected faults) against a dense accumulator with exact arithmetic; sampled, not exhaustive.",
        "trusts numpy's np.add.at and scipy.sparse conversions used by the container itself; values are dyadic so sums are exact",
        "deterministic simulation: seeded write-history machine vs. dense reference model with malformed-write fault injection, ddmin-shrunk replay files",
    ),
    "C25": (
        "revolute",
        "exploration",
        "DESIGN.md 5.11",
        "seeded search over rotation/query/rate/wiggle/reset histories (up to 300 ops, many full turns both ways, quadrant-boundary landings) on a real Revolute inside a real assembled System against an accumulator model; reset is decided by a freshly built twin. Sampled, not exhaustive.",
        "trusts the harness's own quaternion algebra (cardsim/rot.py) and RigidBody.A_IB; increments between queries stay below a quarter turn by construction",
        "deterministic simulation: seeded operation-history machine vs. accumulator reference model and fresh-twin oracle, ddmin-shrunk replay files",
    ),
    "C26": (
        "cache",
        "exploration",
        "DESIGN.md 5.12",
        "seeded search over interleavings of memoised evaluations (argument pools sized so that hits, evictions and re-visits occur) with step callbacks, reference-strain updates and re-assembly, on RigidBody, Sphere2Sphere, all Cosserat rod formulations and Mesh1D; oracle is an unmemoised twin receiving the same history (exact equality). Sampled, not exhaustive.",
        "trusts cachetools (LRUCache(maxsize=0) never stores; the counting subclass used on the memoised side does not change behaviour)",
        "deterministic simulation: seeded interleaving machine under cache pressure vs. unmemoised twin (differential oracle), ddmin-shrunk replay files",
    ),
}

_P = "claimed in DESIGN.md; its check is still under construction in this round and is therefore not registered yet"
PENDING = {p: _P for p in ["C16", "C17", "C18", "C19", "C20", "C21", "C23", "C24", "C29"]}

ENGINE_KIND = {
    "assembly": "operation-history machine (System registry / scatter) vs reference model",
    "coo": "operation-history machine (CooMatrix) vs dense model",
    "revolute": "operation-history machine (Revolute angle tracking) vs accumulator model",
    "cache": "interleaving machine (memoised vs unmemoised twin)",
}


def main():
    hooks_commits = []
    hc = os.path.join(HERE, "hooks_commits.txt")
    if os.path.exists(hc):
        hooks_commits = [l.split()[0] for l in open(hc) if l.strip() and not l.startswith("#")]
    man = {
        "version": 1,
        "setup_cmd": f'{PY} -c "import cardillo, numpy, scipy, cachetools, dill, vtk; import sys; sys.path.insert(0, \'/verif\'); import cardsim"',
        "hooks": {
            "guard": "CARDILLOPROJECT_CARDILLO_VERIF",
            "enable": "CARDILLOPROJECT_CARDILLO_VERIF=1 in the environment before cardillo is imported (python -m cardsim sets it and re-executes itself with PYTHONHASHSEED=0 and single-threaded BLAS); cardillo is an editable install, so every check imports /repo's current working tree in fresh interpreters",
            "baseline_off_cmd": "cd /repo && env -u CARDILLOPROJECT_CARDILLO_VERIF /venv/bin/python -m pytest -ra -q -p no:cacheprovider --timeout=900 --continue-on-collection-errors",
            "source_commits": hooks_commits,
            "add_only": True,
        },
        "engines": [],
        "checks": [],
        "not_applicable": [],
        "notes": "Technique family: deterministic simulation with fault injection (DESIGN.md). Exit protocol of every command: 0 held / 1 VIOLATION line / 2 harness error (never reported as a violation). Known findings: known_findings.json (read-only at run time). Replay: python -m cardsim replay <file>.",
    }
    engines = {}
    for prop, (eng, level, ref, text, note, tech) in sorted(CHECKS.items()):
        man["checks"].append(
            {
                "property_id": prop,
                "quick_cmd": f"cd /verif && timeout 1500 {PY} -m cardsim check {prop} --tier quick",
                "thorough_cmd": f"cd /verif && timeout 14000 {PY} -m cardsim check {prop} --tier thorough",
                "evidence_file": f"/verif/evidence/{prop}.json",
                "replay_cmd_template": f"cd /verif && {PY} -m cardsim replay {{path}}",
                "engine": eng,
                "level_claimed": {"category": level, "text": text, "design_ref": ref},
                "level_note": note,
                "technique": tech,
            }
        )
        engines.setdefault(eng, []).append(prop)
    for eng, props in sorted(engines.items()):
        man["engines"].append(
            {
                "name": eng,
                "path": f"/verif/cardsim/engines/{eng}.py",
                "serves_properties": props,
                "kind_free_text": ENGINE_KIND.get(eng, "session engine"),
            }
        )
    for prop, reason in sorted({**NA, **PENDING}.items()):
        if prop not in CHECKS:
            man["not_applicable"].append({"property_id": prop, "reason": reason})
    with open(os.path.join(HERE, "MANIFEST.json"), "w") as f:
        json.dump(man, f, indent=1)
    # every property accounted for exactly once
    ids = [json.loads(l)["id"] for l in open(os.path.join(HERE, "properties.jsonl"))]
    listed = [c["property_id"] for c in man["checks"]] + [n["property_id"] for n in man["not_applicable"]]
    assert sorted(ids) == sorted(listed), (sorted(set(ids) - set(listed)), sorted(set(listed) - set(ids)))
    print("MANIFEST.json written:", len(man["checks"]), "checks,", len(man["not_applicable"]), "not applicable")


if __name__ == "__main__":
    main()
