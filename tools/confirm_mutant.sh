#!/bin/bash
# usage: tools/confirm_mutant.sh <worktree>  -> confirms demo (with/without change) and the pinned suite in the worktree
WT=$1
cd $WT || exit 2
P=_mutant/patch.diff
git diff -- cardillo > /tmp/confirm_$$.diff
if ! diff -q /tmp/confirm_$$.diff $P >/dev/null; then echo "$WT: NOTE working tree diff differs from patch.diff"; fi
PYTHONPATH=$WT timeout 300 /venv/bin/python _mutant/demo.py > _mutant/demo_with.log 2>&1; with=$?
git apply -R $P && { PYTHONPATH=$WT timeout 300 /venv/bin/python _mutant/demo.py > _mutant/demo_without.log 2>&1; without=$?; git apply $P; }
PYTHONPATH=$WT timeout 1500 /venv/bin/python -m pytest -q -p no:cacheprovider -n 4 --timeout=900 test > _mutant/suite.log 2>&1
suite=$(tail -1 _mutant/suite.log)
echo "$WT demo_with=$with demo_without=$without suite: $suite"
rm -f /tmp/confirm_$$.diff
