#!/usr/bin/env python3
"""Print the cost / reach table of DESIGN 11.2 from the evidence files of the last quick runs."""
import json, glob, os

rows = []
for f in sorted(glob.glob("/verif/evidence/C*.json")):
    d = json.load(open(f))
    c = d["coverage"]
    faults = c.get("faults_fired") or c.get("faults") or {}
    fs = ", ".join(f"{k} {v}" for k, v in sorted(faults.items(), key=lambda kv: -kv[1])[:4]) or "-"
    rows.append((d["property_id"], c.get("evaluations"), c.get("distinct_nontrivial"), round(d.get("wall_s", 0)), c.get("steps", c.get("simulated_steps", "")), fs))
print("| id | quick runs | distinct | wall (s, 16 workers) | simulated steps | faults fired (top 4) |")
print("|---|---|---|---|---|---|")
for r in rows:
    print("| " + " | ".join(str(x) for x in r) + " |")
