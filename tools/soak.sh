#!/bin/bash
# usage: tools/soak.sh "<seeds>" "<props>"   -> one line per (prop, seed) with exit code; alarms are listed at the end
cd /verif
SEEDS=${1:-"1 2 3"}
PROPS=${2:-"C14 C15 C16 C17 C18 C19 C20 C21 C23 C24 C25 C26 C29"}
OUT=${SOAK_OUT:-/tmp/soak}
mkdir -p $OUT
for s in $SEEDS; do
  for p in $PROPS; do
    VERIF_SEED=$s timeout 3000 /venv/bin/python -m cardsim check $p > $OUT/$p.$s.log 2>&1
    rc=$?
    echo "$p seed=$s exit=$rc $(grep '^summary' $OUT/$p.$s.log | sed 's/.*runs=/runs=/' | cut -c1-160)"
  done
done
echo "--- alarms"
grep -l "^VIOLATION\|HARNESS-ERROR" $OUT/*.log 2>/dev/null
