#!/bin/bash
# Sensitivity regression: every seeded change must still be caught by the check(s) named in its meta.json ("expect").
# usage: tools/check_seeded.sh [ids...]
cd /verif
IDS=${@:-$(ls seeded | grep -v README)}
for id in $IDS; do
  exp=$(/venv/bin/python -c "
import json;m=json.load(open('seeded/$id/meta.json'));e=m.get('expect') or {};print(e.get('prop',''),e.get('seed',1),e.get('args',''))")
  set -- $exp
  prop=$1; seed=$2; shift 2; args="$*"
  if [ -z "$prop" ]; then echo "$id: no expectation recorded (missed by all checks)"; continue; fi
  out=$(tools/try_mutant.sh seeded/$id "$prop" "$seed" "$args" 2>&1)
  if echo "$out" | grep -q "^VIOLATION property=$prop"; then echo "$id: caught by $prop (seed $seed) - $(echo "$out" | grep -m1 '^  class=' | cut -c1-140)"; else echo "$id: NOT CAUGHT by $prop seed $seed"; echo "$out" | tail -3; fi
done
