#!/bin/bash
# usage: tools/process_mutant.sh <id> "<props>" ["<seeds>"]  -> confirm a sub-agent's change in its scratch worktree, then run the checks against it
ID=$1; PROPS=$2; SEEDS=${3:-"1 2"}
WT=/tmp/wt/$ID
cd /verif
tools/confirm_mutant.sh $WT > /tmp/wt/confirm_$ID.txt 2>&1
cat /tmp/wt/confirm_$ID.txt
mkdir -p /tmp/wt/stage/$ID && cp $WT/_mutant/patch.diff $WT/_mutant/demo.py $WT/_mutant/notes.md /tmp/wt/stage/$ID/
tools/try_mutant.sh /tmp/wt/stage/$ID "$PROPS" "$SEEDS" > /tmp/wt/try_$ID.txt 2>&1
cat /tmp/wt/try_$ID.txt
