"""Rod construction from a JSON spec (shared by the cache, statics and export engines)."""

import numpy as np

INTERPOLATIONS = ["Quaternion", "SE3", "R12"]


def gen_rod_spec(rng, allow_constraints=True):
    interp = INTERPOLATIONS[int(rng.integers(3))]
    mixed = bool(rng.random() < 0.5)
    constraints = None
    if allow_constraints and rng.random() < 0.3:
        constraints = [[1, 2], [0, 1, 2], [1, 2, 4]][int(rng.integers(3))]
    degree = 1 if interp == "SE3" else int(rng.integers(1, 3))
    return {
        "interp": interp,
        "mixed": mixed,
        "constraints": constraints,
        "degree": degree,
        "nel": int(rng.integers(1, 4)),
        "L": float(rng.uniform(0.5, 3.0)),
        "Ei": [float(x) for x in rng.uniform(2.0, 8.0, 3)],
        "Fi": [float(x) for x in rng.uniform(0.3, 3.0, 3)],
    }


def rod_class(spec):
    from cardillo.rods.cosseratRod import make_CosseratRod

    return make_CosseratRod(
        interpolation=spec["interp"],
        mixed=spec["mixed"],
        constraints=spec["constraints"],
        polynomial_degree=spec["degree"],
    )


def build_rod(spec, r0=None, A0=None, q0=None, u0=None, name="rod"):
    from cardillo.rods import RectangularCrossSection, Simo1986, CrossSectionInertias

    Rod = rod_class(spec)
    L = spec["L"]
    cs = RectangularCrossSection(L / 50, L / 40)
    mat = Simo1986(np.array(spec["Ei"]), np.array(spec["Fi"]))
    r0 = np.zeros(3) if r0 is None else np.asarray(r0, dtype=float)
    A0 = np.eye(3) if A0 is None else np.asarray(A0, dtype=float)
    Q = Rod.straight_configuration(spec["nel"], L, r_OP0=r0, A_IB0=A0)
    inert = CrossSectionInertias(density=float(spec.get("rho", 10.0)), cross_section=cs)
    rod = Rod(
        cs,
        mat,
        spec["nel"],
        Q=Q,
        q0=Q.copy() if q0 is None else np.asarray(q0, dtype=float),
        u0=None if u0 is None else np.asarray(u0, dtype=float),
        cross_section_inertias=inert,
        name=name,
    )
    return rod
