"""Scene plans -> cardillo Systems.

A scene is plain JSON (numbers and enums, no callables).  ``build`` turns it
into a real ``cardillo.System``.  Joint frames are stored in world
coordinates *at the scene's own initial configuration*; when a scene is
built at a different state (``state=...``) the builder re-expresses every
joint through the body-fixed placement on its first subsystem, independently
of cardillo's own restart code.
"""

import contextlib
import io

import numpy as np

from . import rot


# ------------------------------------------------------------------ small closed-form families
def scalar_fun(kind, w=1.0):
    if kind == "const":
        return lambda t: 1.0
    if kind == "ramp":
        return lambda t: t
    if kind == "sin":
        return lambda t: np.sin(w * t)
    if kind == "cos":
        return lambda t: np.cos(w * t)
    raise ValueError(kind)


class FrameMotion:
    """r(t) = r0 + amp (sin(w t + ph) - sin(ph)),  A(t) = A0 R(axis, alpha (sin(w t + ph) - sin(ph))) with analytic
    derivatives (ph = 0 by default; ph = pi/2 starts from rest)."""

    def __init__(self, spec):
        self.r0 = np.array(spec["r"], dtype=float)
        self.A0 = rot.quat_to_mat(spec["p"])
        m = spec.get("motion") or {}
        self.amp = np.array(m.get("amp", [0, 0, 0]), dtype=float)
        self.w = float(m.get("w", 0.0))
        self.ph = float(m.get("phase", 0.0))
        self.from_rest = bool(m.get("from_rest", False))
        ax = np.array(m.get("axis", [0, 0, 1]), dtype=float)
        self.axis = ax / np.linalg.norm(ax)
        self.alpha = float(m.get("alpha", 0.0))
        self.S = rot.skew(self.axis)
        self.moving = bool(m) and (np.any(self.amp != 0) or self.alpha != 0)

    def _s(self, t):
        if self.from_rest:
            return 1.0 - np.cos(self.w * t)  # velocity exactly zero at t = 0
        return np.sin(self.w * t + self.ph) - np.sin(self.ph)

    def _s_t(self, t):
        if self.from_rest:
            return self.w * np.sin(self.w * t)
        return self.w * np.cos(self.w * t + self.ph)

    def _s_tt(self, t):
        if self.from_rest:
            return self.w**2 * np.cos(self.w * t)
        return -self.w**2 * np.sin(self.w * t + self.ph)

    def r(self, t):
        return self.r0 + self.amp * self._s(t)

    def r_t(self, t):
        return self.amp * self._s_t(t)

    def r_tt(self, t):
        return self.amp * self._s_tt(t)

    def _R(self, t):
        return rot.quat_to_mat(rot.quat_axis_angle(self.axis, self.alpha * self._s(t)))

    def A(self, t):
        return self.A0 @ self._R(t)

    def A_t(self, t):
        return self.A0 @ self._R(t) @ self.S * (self.alpha * self._s_t(t))

    def A_tt(self, t):
        th_t = self.alpha * self._s_t(t)
        th_tt = self.alpha * self._s_tt(t)
        R = self._R(t)
        return self.A0 @ (R @ self.S @ self.S * th_t**2 + R @ self.S * th_tt)


# ------------------------------------------------------------------ builder
class Built:
    pass


def body_pose(b, state=None, i=None):
    """-> r, A, p(quat as stored), v, w for body spec b (or the override)."""
    if state is not None and i in state.get("bodies", {}):
        s = state["bodies"][i]
        r, p, v, w = s["r"], s.get("p"), s["v"], s.get("w")
    else:
        r, p, v, w = b["r"], b.get("p"), b.get("v", [0, 0, 0]), b.get("w", [0, 0, 0])
    r = np.array(r, dtype=float)
    v = np.array(v, dtype=float)
    if b["kind"] == "rigid":
        p = np.array(p, dtype=float)
        return r, rot.quat_to_mat(p), p, v, np.array(w, dtype=float)
    return r, np.eye(3), None, v, None


def _theta(b):
    th = np.array(b["theta"], dtype=float)
    return np.diag(th) if th.ndim == 1 else th


def build(scene, state=None, assemble=True, options=None, names=None, extra=None, add_to_system=True):
    """Build the System described by ``scene``.

    state   : optional override {"t0": .., "bodies": {i: {"r","p","v","w"}}, "angle0": {j: value}, "maxwell": {k: q}}
    names   : optional {("body", i): "name", ...} name overrides
    """
    from cardillo import System
    from cardillo.discrete import RigidBody, PointMass, Frame
    from cardillo.constraints import (
        Revolute,
        Spherical,
        RigidConnection,
        Prismatic,
        Cylindrical,
        Planarizer,
        FixedDistance,
    )
    from cardillo.forces import Force, B_Force, Moment, B_Moment
    from cardillo.force_laws import Spring, KelvinVoigtElement, MaxwellElement
    from cardillo.interactions import TwoPointInteraction
    from cardillo.actuators import Motor, PDcontroller
    from cardillo.contacts import Sphere2Plane, Sphere2Sphere

    names = names or {}
    t0 = scene.get("t0", 0.0)
    if state is not None and "t0" in state:
        t0 = state["t0"]
    B = Built()
    B.scene = scene
    system = System(t0=t0)
    B.system = system
    B.bodies, B.frames, B.joints, B.tpis, B.laws, B.actuators, B.forces, B.contacts = [], [], [], [], [], [], [], []
    B.frame_motions = []
    B.order = []  # contributions in the order they are added

    def nm(kind, i, default):
        return names.get((kind, i), default)

    def add(c):
        B.order.append(c)

    # initial poses of the *plan* (used for body-fixed joint placement)
    plan_pose = [body_pose(b) for b in scene.get("bodies", [])]
    now_pose = [body_pose(b, state, i) for i, b in enumerate(scene.get("bodies", []))]

    # legal user style: one array object (e.g. `at_rest = np.zeros(6)`) handed to several contributions as initial
    # velocity; equal contents then share one object
    _shared = {}

    def shared(arr):
        if not scene.get("share_initial_arrays"):
            return arr
        return _shared.setdefault((arr.shape, tuple(arr.tolist())), arr)

    for i, b in enumerate(scene.get("bodies", [])):
        r, A, p, v, w = now_pose[i]
        if b["kind"] == "rigid":
            q0 = np.concatenate([r, p])
            u0 = shared(np.concatenate([v, w]))
            if b.get("mesh"):
                # a rigid body that carries a visual mesh (box), placed off-centre / rotated in the body frame
                from cardillo.discrete import Box

                ms = b["mesh"]
                body = Box(RigidBody)(
                    dimensions=np.array(ms["dims"], dtype=float),
                    mass=b["m"],
                    B_Theta_C=_theta(b),
                    q0=q0,
                    u0=u0,
                    B_r_CP=np.array(ms.get("offset", [0, 0, 0]), dtype=float),
                    A_BM=rot.quat_to_mat(ms["A"]) if ms.get("A") is not None else np.eye(3),
                    name=nm("body", i, f"b{i}"),
                )
            else:
                body = RigidBody(b["m"], _theta(b), q0=q0, u0=u0, name=nm("body", i, f"b{i}"))
        else:
            body = PointMass(b["m"], q0=r.copy(), u0=shared(v.copy()), name=nm("body", i, f"b{i}"))
        B.bodies.append(body)
        add(body)

    for k, f in enumerate(scene.get("frames", [])):
        fm = FrameMotion(f)
        B.frame_motions.append(fm)
        if fm.moving:
            # legal calling styles: a part that does not move is handed over as a constant
            kw = {}
            if np.any(fm.amp != 0):
                kw.update(r_OP=fm.r, r_OP_t=fm.r_t, r_OP_tt=fm.r_tt)
            else:
                kw.update(r_OP=fm.r0)
            if fm.alpha != 0:
                kw.update(A_IB=fm.A, A_IB_t=fm.A_t, A_IB_tt=fm.A_tt)
            else:
                kw.update(A_IB=fm.A0)
            fr = Frame(name=nm("frame", k, f"f{k}"), **kw)
        else:
            fr = Frame(r_OP=fm.r0, A_IB=fm.A0, name=nm("frame", k, f"f{k}"))
        B.frames.append(fr)
        add(fr)

    # Cosserat rods (dynamic scenes): reference configuration = the plan's straight placement;
    # a state override carries the rod's own coordinates and velocities
    from .rods import build_rod

    B.rods = []
    for i, rd in enumerate(scene.get("rods", [])):
        st = (state or {}).get("rods", {}).get(i)
        rod = build_rod(
            rd["spec"],
            r0=rd["r0"],
            A0=rot.quat_to_mat(rd["p0"]),
            q0=None if st is None else st["q"],
            u0=rd.get("u0") if st is None else st["u"],
            name=nm("rod", i, f"rod{i}"),
        )
        B.rods.append(rod)
        add(rod)

    def ref(x):
        if x == "origin":
            return system.origin
        kind, i = x[0], x[1]
        return {"body": B.bodies, "frame": B.frames, "rod": B.rods}[kind][i]

    def ref_xi(x):
        return float(x[2]) if x != "origin" and x[0] == "rod" else None

    def rod_pose(i, xi, which):
        rod = B.rods[i]
        q = rod.Q if which == "plan" else rod.q0
        qe = q[rod.local_qDOF_P(xi)]
        return rod.r_OP(0.0, qe, xi), rod.A_IB(0.0, qe, xi)

    def ref_pose(x, which, t):
        """(r, A) of a subsystem at plan pose (which='plan') or current pose."""
        if x == "origin":
            return np.zeros(3), np.eye(3)
        kind, i = x[0], x[1]
        if kind == "body":
            r, A, _, _, _ = (plan_pose if which == "plan" else now_pose)[i]
            return r, A
        if kind == "rod":
            return rod_pose(i, float(x[2]), which)
        fm = B.frame_motions[i]
        return fm.r(t), fm.A(t)

    t_plan = scene.get("t0", 0.0)
    for j, jt in enumerate(scene.get("joints", [])):
        s1, s2 = ref(jt["a"]), ref(jt["b"])
        rJ = np.array(jt["rJ"], dtype=float)
        AJ = rot.quat_to_mat(jt["pJ"]) if jt.get("pJ") is not None else np.eye(3)
        if state is not None:
            # express the joint through its body-fixed placement on subsystem 1
            r1p, A1p = ref_pose(jt["a"], "plan", t_plan)
            r1n, A1n = ref_pose(jt["a"], "now", t0)
            rJ = r1n + A1n @ (A1p.T @ (rJ - r1p))
            AJ = A1n @ (A1p.T @ AJ)
        ty = jt["type"]
        name = nm("joint", j, f"j{j}")
        xi = {}
        first, second = ("b", "a") if jt.get("swap") else ("a", "b")
        if jt.get("swap"):
            # legal calling style: the parent (origin / frame / earlier body) is handed over as SECOND partner
            s1, s2 = s2, s1
        if ref_xi(jt[first]) is not None:
            xi["xi1"] = ref_xi(jt[first])
        if ref_xi(jt[second]) is not None:
            xi["xi2"] = ref_xi(jt[second])
        if ty == "revolute":
            a0 = jt.get("angle0", 0.0)
            if state is not None and j in state.get("angle0", {}):
                a0 = state["angle0"][j]
            c = Revolute(s1, s2, axis=jt["axis"], angle0=a0, r_OJ0=rJ, A_IJ0=AJ, name=name, **xi)
        elif ty == "spherical":
            c = Spherical(s1, s2, r_OJ0=rJ, name=name, **xi)
        elif ty == "rigid":
            c = RigidConnection(s1, s2, r_OJ0=rJ, A_IJ0=AJ, name=name, **xi)
        elif ty == "prismatic":
            c = Prismatic(s1, s2, axis=jt["axis"], r_OJ0=rJ, A_IJ0=AJ)
            c.name = name
        elif ty == "cylindrical":
            c = Cylindrical(s1, s2, axis=jt["axis"], r_OJ0=rJ, A_IJ0=AJ)
            c.name = name
        elif ty == "planarizer":
            c = Planarizer(s1, s2, axis=jt["axis"], r_OJ0=rJ, A_IJ0=AJ)
            c.name = name
        elif ty == "fixed_distance":
            off = {"a": np.array(jt.get("ra", [0, 0, 0]), dtype=float), "b": np.array(jt.get("rb", [0, 0, 0]), dtype=float)}
            c = FixedDistance(s1, s2, B1_r_P1J1=off[first], B2_r_P2J2=off[second])
            c.name = name
        else:
            raise ValueError(ty)
        B.joints.append(c)
        add(c)

    for k, tp in enumerate(scene.get("tpis", [])):
        c = TwoPointInteraction(
            ref(tp["a"]),
            ref(tp["b"]),
            B_r_CP1=np.array(tp.get("ra", [0, 0, 0]), dtype=float),
            B_r_CP2=np.array(tp.get("rb", [0, 0, 0]), dtype=float),
            name=nm("tpi", k, f"tpi{k}"),
        )
        B.tpis.append(c)
        # Spring / Kelvin-Voigt assemble their interaction themselves; a Maxwell
        # element needs the interaction to be a contribution of its own.
        needs = any(lw["on"] == ["tpi", k] and lw["type"] == "maxwell" for lw in scene.get("laws", []))
        if tp.get("add") or needs:
            add(c)

    for k, lw in enumerate(scene.get("laws", [])):
        kind, idx = lw["on"]
        sub = B.tpis[idx] if kind == "tpi" else B.joints[idx]
        name = nm("law", k, f"law{k}")
        if state is not None and k in state.get("l_ref", {}):
            lw = dict(lw, l_ref=state["l_ref"][k])
        if lw["type"] == "spring":
            c = Spring(sub, k=lw["k"], l_ref=lw.get("l_ref"), compliance_form=lw.get("compliance", False), name=name)
        elif lw["type"] == "kv":
            c = KelvinVoigtElement(sub, k=lw["k"], d=lw["d"], l_ref=lw.get("l_ref"), compliance_form=lw.get("compliance", False), name=name)
        elif lw["type"] == "maxwell":
            q0 = np.array([lw.get("q0", 0.0)], dtype=float)
            if state is not None and k in state.get("maxwell", {}):
                q0 = np.array([state["maxwell"][k]], dtype=float)
            if scene.get("share_initial_arrays") and q0[0] == 0.0:
                c = MaxwellElement(sub, stiffness=lw["k"], viscosity=lw["d"], l_ref=lw.get("l_ref"), name=name)  # the library's default q0
            else:
                c = MaxwellElement(sub, stiffness=lw["k"], viscosity=lw["d"], l_ref=lw.get("l_ref"), q0=q0, name=name)
        else:
            raise ValueError(lw["type"])
        B.laws.append(c)
        add(c)

    for k, ac in enumerate(scene.get("actuators", [])):
        jt = B.joints[ac["joint"]]
        s = scalar_fun(ac.get("time", "const"), ac.get("w", 1.0))
        if ac["type"] == "motor":
            amp = float(ac["tau"])
            c = Motor(jt, (lambda t, amp=amp, s=s: amp * s(t)))
        elif ac["type"] == "pid":
            from cardillo.actuators import PIDcontroller

            tgt = np.array(ac["target"], dtype=float)
            c = PIDcontroller(jt, kp=ac["kp"], ki=ac["ki"], kd=ac["kd"], tau=(lambda t, tgt=tgt, s=s: tgt * s(t)))
            # the integral of the control error is a coordinate of the controller (state override on rebuilds)
            c.q0 = np.array([float(ac.get("q0", 0.0))])
            if state is not None and k in state.get("pid", {}):
                c.q0 = np.array([float(state["pid"][k])])
        else:
            tgt = np.array(ac["target"], dtype=float)
            c = PDcontroller(jt, kp=ac["kp"], kd=ac["kd"], tau=(lambda t, tgt=tgt, s=s: tgt * s(t)))
        c.name = nm("actuator", k, f"act{k}")
        B.actuators.append(c)
        add(c)

    g = scene.get("gravity")
    B.gravity_forces = []
    if g is not None:
        g = np.array(g, dtype=float)
        for i, b in enumerate(scene.get("bodies", [])):
            c = Force(b["m"] * g, B.bodies[i], name=nm("gravity", i, f"grav{i}"))
            B.gravity_forces.append(c)
            add(c)

    for k, fo in enumerate(scene.get("forces", [])):
        if "rod" in fo:
            vec = np.array(fo["vec"], dtype=float)
            s = scalar_fun(fo.get("time", "const"), fo.get("w", 1.0))
            cls = {"force": Force, "b_force": B_Force, "moment": Moment, "b_moment": B_Moment}[fo["type"]]
            c = cls((lambda t, vec=vec, s=s: vec * s(t)), B.rods[fo["rod"]], xi=float(fo["xi"]), name=nm("force", k, f"force{k}"))
            B.forces.append(c)
            add(c)
            continue
        body = B.bodies[fo["body"]]
        vec = np.array(fo["vec"], dtype=float)
        s = scalar_fun(fo.get("time", "const"), fo.get("w", 1.0))
        f = lambda t, vec=vec, s=s: vec * s(t)
        rB = np.array(fo.get("rB", [0, 0, 0]), dtype=float)
        name = nm("force", k, f"force{k}")
        ty = fo["type"]
        if ty == "force":
            c = Force(f, body, B_r_CP=rB, name=name)
        elif ty == "b_force":
            c = B_Force(f, body, B_r_CP=rB, name=name)
        elif ty == "moment":
            c = Moment(f, body, name=name)
        elif ty == "b_moment":
            c = B_Moment(f, body, name=name)
        else:
            raise ValueError(ty)
        B.forces.append(c)
        add(c)

    B.plane_frames = []
    for k, co in enumerate(scene.get("contacts", [])):
        name = nm("contact", k, f"c{k}")
        if co["type"] == "s2p":
            pm = FrameMotion(co["plane"])
            if pm.moving:
                # the plane is moved explicitly in time (a shaking / tilting floor)
                kw = dict(r_OP=pm.r, r_OP_t=pm.r_t, r_OP_tt=pm.r_tt) if np.any(pm.amp != 0) else dict(r_OP=pm.r0)
                kw.update(dict(A_IB=pm.A, A_IB_t=pm.A_t, A_IB_tt=pm.A_tt) if pm.alpha != 0 else dict(A_IB=pm.A0))
                pf = Frame(name=nm("plane", k, f"plane{k}"), **kw)
            else:
                pf = Frame(r_OP=np.array(co["plane"]["r"], dtype=float), A_IB=rot.quat_to_mat(co["plane"]["p"]), name=nm("plane", k, f"plane{k}"))
            B.plane_frames.append(pf)
            add(pf)
            c = Sphere2Plane(
                pf,
                B.bodies[co["body"]],
                mu=co["mu"],
                r=co["radius"],
                B_r_CP=np.array(co.get("rB", [0, 0, 0]), dtype=float),
                e_N=co.get("eN", 0.0),
                e_F=co.get("eF", 0.0),
                name=name,
            )
        else:
            c = Sphere2Sphere(
                B.bodies[co["a"]],
                B.bodies[co["b"]],
                co["ra"],
                co["rb"],
                mu=co["mu"],
                e_N=co.get("eN", 0.0),
                e_F=co.get("eF", 0.0),
                name=name,
            )
        B.contacts.append(c)
        add(c)

    # user-defined velocity-level (nonholonomic) constraints, duck-typed like the rolling condition of the
    # repository's rolling-disc example
    B.nonholonomic = []
    for k, nh in enumerate(scene.get("nonholonomic", [])):
        from .custom import KnifeEdge

        c = KnifeEdge(B.bodies[nh["body"]], nh.get("rB", [0, 0, 0]), nh["n"], name=nm("nonholonomic", k, f"nh{k}"))
        B.nonholonomic.append(c)
        add(c)

    if extra:
        for c in extra(B):
            add(c)

    ea = scene.get("earlier_assembly")
    if ea and add_to_system and assemble and scene.get("bodies") and not scene.get("rods"):
        # the System object has a past: it was assembled before with prototype bodies of the same kinds but other
        # masses / inertias, which were then replaced (remove + add) by the bodies of this scene
        protos = []
        for i, b in enumerate(scene["bodies"]):
            r, A, p, v, w = now_pose[i]
            if b["kind"] == "rigid":
                protos.append(RigidBody(b["m"] * ea["mass_scale"], _theta(b) * ea["mass_scale"] * 0.5, q0=np.concatenate([r, p]), u0=np.concatenate([v, w]), name=f"proto{i}"))
            else:
                protos.append(PointMass(b["m"] * ea["mass_scale"], q0=r.copy(), u0=v.copy(), name=f"proto{i}"))
        system.add(*protos)
        with contextlib.redirect_stdout(io.StringIO()):
            system.assemble()
        for c in protos:
            system.remove(c)
        B.earlier_assembly = True
    if add_to_system:
        system.add(*B.order)
    if assemble and add_to_system:
        with contextlib.redirect_stdout(io.StringIO()):
            if options is not None:
                system.assemble(options=options)
            else:
                system.assemble()
    return B


def quiet(f, *a, **k):
    with contextlib.redirect_stdout(io.StringIO()), contextlib.redirect_stderr(io.StringIO()):
        return f(*a, **k)
