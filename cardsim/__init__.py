"""cardsim - deterministic simulation with fault injection for cardillo.

See /verif/DESIGN.md.  Entry point: ``python -m cardsim`` (cardsim/__main__.py).
"""

ENGINES = {
    # property id -> engine module name (cardsim.engines.<name>)
    "C14": "assembly",
    "C15": "coo",
    "C16": "initcond",
    "C17": "constraints",
    "C18": "contactlaws",
    "C19": "rattle_sym",
    "C20": "solution",
    "C21": "nonconv",
    "C23": "statics",
    "C24": "restart",
    "C25": "revolute",
    "C26": "cache",
    "C29": "export",
}
