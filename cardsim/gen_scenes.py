"""Seeded scene generators (DESIGN 5, "scene generator (shared)")."""

import numpy as np

from . import rot

JOINT_TYPES_RIGID = ["revolute", "spherical", "rigid", "prismatic", "cylindrical", "planarizer", "fixed_distance"]
NCON = {"revolute": 5, "spherical": 3, "rigid": 6, "prismatic": 5, "cylindrical": 4, "planarizer": 3, "fixed_distance": 1}


def _spd_inertia(rng, spherical=False):
    if spherical:
        x = float(rng.uniform(0.05, 0.5))
        return [x, x, x]
    # a physically valid inertia: principal values fulfil the triangle inequalities
    a = rng.uniform(0.05, 0.5, 3)
    d = np.array([a[1] + a[2], a[0] + a[2], a[0] + a[1]])
    R = rot.quat_to_mat(rot.rand_quat(rng))
    if rng.random() < 0.5:
        return d.tolist()
    return (R @ np.diag(d) @ R.T).tolist()


def gen_body(rng, center, kind=None, spherical=False, spread=0.6, speed=1.0):
    kind = kind or ("rigid" if rng.random() < 0.7 else "point")
    b = {
        "kind": kind,
        "m": float(rng.uniform(0.3, 4.0)),
        "r": (np.asarray(center) + rng.uniform(-spread, spread, 3)).tolist(),
        "v": (speed * rng.normal(size=3)).tolist(),
    }
    if kind == "rigid":
        b["theta"] = _spd_inertia(rng, spherical)
        b["p"] = rot.rand_quat(rng).tolist()
        b["w"] = (speed * rng.normal(size=3)).tolist()
    return b


def gen_chain_scene(
    rng,
    nbodies=None,
    joints=None,
    conservative=False,
    allow_loop=True,
    allow_frames=True,
    allow_actuators=True,
    allow_compliance=True,
    rigid_only=False,
    speed=1.0,
):
    """Open chains / trees from the origin or a frame, optionally one loop
    closed by a spherical joint; force elements; (optionally) actuators."""
    nb = nbodies or int(rng.integers(1, 5))
    joints_allowed = joints or JOINT_TYPES_RIGID
    scene = {"t0": 0.0, "bodies": [], "frames": [], "joints": [], "tpis": [], "laws": [], "actuators": [], "forces": [], "contacts": []}
    if allow_frames and not conservative and rng.random() < 0.3:
        motion = None
        if rng.random() < 0.6:
            motion = {"amp": rng.uniform(-0.2, 0.2, 3).tolist(), "w": float(rng.uniform(1, 6)), "axis": rng.normal(size=3).tolist(), "alpha": float(rng.uniform(0, 0.5))}
            style = rng.random()
            if style < 0.2:
                motion["amp"] = [0.0, 0.0, 0.0]  # rotating about a fixed point
                motion["alpha"] = float(rng.uniform(0.1, 0.5))
            elif style < 0.4:
                motion["alpha"] = 0.0  # translating only
            if rng.random() < 0.35:
                motion["from_rest"] = True  # a drive that starts exactly from rest: no explicit time dependence of the velocity level at t0
        scene["frames"].append({"r": rng.uniform(-0.5, 0.5, 3).tolist(), "p": rot.rand_quat(rng).tolist(), "motion": motion})
    elif allow_frames and rng.random() < 0.2:
        scene["frames"].append({"r": rng.uniform(-0.5, 0.5, 3).tolist(), "p": rot.rand_quat(rng).tolist(), "motion": None})
    dof = 0
    parent_of = {}
    for i in range(nb):
        center = np.array([0.0, 0.0, 0.0]) if i == 0 else np.array(scene["bodies"][int(rng.integers(i))]["r"])
        must_rigid = rigid_only
        b = gen_body(rng, center + rng.uniform(-0.3, 0.3, 3), kind="rigid" if must_rigid else None, speed=speed)
        scene["bodies"].append(b)
        # attach to origin / frame / earlier body
        cands = ["origin"] + [["frame", k] for k in range(len(scene["frames"]))] + [["body", j] for j in range(i)]
        a = cands[int(rng.integers(len(cands)))] if i > 0 else (cands[int(rng.integers(len(cands)))] if rng.random() < 0.9 else None)
        if i == 0 and scene["frames"] and scene["frames"][0].get("motion") and rng.random() < 0.6:
            a = ["frame", 0]  # a moving frame is there to move something
        if a is None:
            dof += 6 if b["kind"] == "rigid" else 3
            continue  # free-floating first body
        a_is_point = a != "origin" and a[0] == "body" and scene["bodies"][a[1]]["kind"] == "point"
        if b["kind"] == "point" or a_is_point:
            types = [t for t in joints_allowed if t in ("spherical", "fixed_distance")] or ["spherical"]
        else:
            types = joints_allowed
        ty = types[int(rng.integers(len(types)))]
        if b["kind"] == "point" and a_is_point:
            ty = "fixed_distance"  # two points can only be tied by a distance
        rJ = (np.array(b["r"]) + rng.uniform(-0.5, 0.5, 3)).tolist()
        # a point mass carries no body-fixed offset: the joint sits on the point itself
        if b["kind"] == "point":
            rJ = list(b["r"])
        elif a_is_point:
            rJ = list(scene["bodies"][a[1]]["r"])
        jt = {"type": ty, "a": a, "b": ["body", i], "axis": int(rng.integers(3)), "rJ": rJ, "pJ": rot.rand_quat(rng).tolist()}
        if ty == "fixed_distance":
            jt["ra"] = [0.0, 0.0, 0.0] if (a == "origin" or a_is_point or a[0] == "frame") else rng.uniform(-0.2, 0.2, 3).tolist()
            jt["rb"] = [0.0, 0.0, 0.0] if b["kind"] == "point" else rng.uniform(-0.2, 0.2, 3).tolist()
        if ty == "revolute":
            jt["angle0"] = float(rng.choice([0.0, rng.uniform(-3, 3)]))
        if rng.random() < (0.5 if (a != "origin" and a[0] == "frame") else 0.3):
            jt["swap"] = True  # parent handed over as second partner
        scene["joints"].append(jt)
        parent_of[i] = a
        dof += (6 if b["kind"] == "rigid" else 3) - (NCON[ty] if b["kind"] == "rigid" else min(NCON[ty], 3))
    # one loop closure by a spherical joint if enough freedom remains
    if allow_loop and nb >= 2 and dof >= 4 and rng.random() < 0.3:
        i, j = [int(x) for x in rng.permutation(nb)[:2]]
        ki, kj = scene["bodies"][i]["kind"], scene["bodies"][j]["kind"]
        rJ = (0.5 * (np.array(scene["bodies"][i]["r"]) + np.array(scene["bodies"][j]["r"]))).tolist()
        if ki == "point":
            rJ = list(scene["bodies"][i]["r"])
        elif kj == "point":
            rJ = list(scene["bodies"][j]["r"])
        if not (ki == "point" and kj == "point"):
            scene["joints"].append({"type": "spherical", "a": ["body", i], "b": ["body", j], "axis": 0, "rJ": rJ, "pJ": None, "loop": True})
            dof -= 3
    scene["dof_estimate"] = dof
    # gravity
    if rng.random() < 0.8:
        g = np.array([0, 0, -9.81]) if rng.random() < 0.6 else 9.81 * rot.quat_to_mat(rot.rand_quat(rng))[:, 2]
        scene["gravity"] = g.tolist()
    # translational springs / dampers
    for _ in range(int(rng.integers(0, 3))):
        b = int(rng.integers(nb))
        cands = ["origin"] + [["body", i] for i in range(nb) if i != b]
        a = cands[int(rng.integers(len(cands)))]
        ra = [0.0, 0.0, 0.0] if a == "origin" or scene["bodies"][a[1]]["kind"] == "point" else rng.uniform(-0.2, 0.2, 3).tolist()
        rb = [0.0, 0.0, 0.0] if scene["bodies"][b]["kind"] == "point" else rng.uniform(-0.2, 0.2, 3).tolist()
        # keep the two points apart (the interaction is singular at zero length)
        pa = np.zeros(3) if a == "origin" else np.array(scene["bodies"][a[1]]["r"])
        if np.linalg.norm(np.array(scene["bodies"][b]["r"]) - pa) < 0.4:
            continue
        scene["tpis"].append({"a": a, "b": ["body", b], "ra": ra, "rb": rb, "add": bool(rng.random() < 0.3)})
        types = ["spring"] if conservative else ["spring", "kv", "maxwell"]
        ty = types[int(rng.integers(len(types)))]
        scene["laws"].append(
            {
                "type": ty,
                "on": ["tpi", len(scene["tpis"]) - 1],
                "k": float(rng.uniform(2, 60)),
                "d": float(rng.uniform(0.1, 3)),
                "l_ref": None if rng.random() < 0.4 else float(rng.uniform(0.3, 1.5)),
                "compliance": bool(allow_compliance and not conservative and rng.random() < 0.4),
                "q0": 0.0,
            }
        )
    # rotational springs / actuators on revolute joints
    for j, jt in enumerate(scene["joints"]):
        if jt["type"] != "revolute":
            continue
        x = rng.random()
        if x < 0.4:
            scene["laws"].append(
                {
                    "type": "spring" if conservative else str(rng.choice(["spring", "kv"])),
                    "on": ["joint", j],
                    "k": float(rng.uniform(1, 30)),
                    "d": float(rng.uniform(0.05, 1)),
                    "l_ref": float(rng.choice([0.0, jt.get("angle0", 0.0)])),
                    "compliance": bool(allow_compliance and not conservative and rng.random() < 0.4),
                }
            )
        elif allow_actuators and not conservative and x < 0.6:
            scene["actuators"].append({"type": "motor", "joint": j, "tau": float(rng.uniform(-4, 4)), "time": str(rng.choice(["const", "sin", "cos"])), "w": float(rng.uniform(1, 5))})
        elif allow_actuators and not conservative and x < 0.7:
            scene["actuators"].append({"type": "pd", "joint": j, "kp": float(rng.uniform(1, 10)), "kd": float(rng.uniform(0.1, 1)), "target": [float(rng.uniform(-1, 1)), 0.0]})
        elif allow_actuators and not conservative and x < 0.8:
            # PID controller: the integral of the control error is a position coordinate without velocity
            scene["actuators"].append({"type": "pid", "joint": j, "kp": float(rng.uniform(1, 10)), "ki": float(rng.uniform(0.5, 8)), "kd": float(rng.uniform(0.1, 1)), "target": [float(rng.uniform(-1, 1)), 0.0], "q0": float(rng.choice([0.0, rng.uniform(-0.3, 0.3)]))})
    # applied forces
    if not conservative:
        for _ in range(int(rng.integers(0, 2))):
            b = int(rng.integers(nb))
            ty = str(rng.choice(["force", "b_force", "moment", "b_moment"])) if scene["bodies"][b]["kind"] == "rigid" else "force"
            scene["forces"].append({"type": ty, "body": b, "vec": rng.normal(size=3).tolist(), "rB": rng.uniform(-0.3, 0.3, 3).tolist(), "time": str(rng.choice(["const", "sin"])), "w": float(rng.uniform(1, 5))})
    return scene


def gen_contact_scene(rng, nspheres=None, free_flight=False, allow_s2s=True, friction=True, common_eN=None):
    """Spheres (rigid bodies with spherical inertia, or point masses) over
    fixed planes, optional sphere-sphere pairs.  ``free_flight``: no applied
    forces, mu = 0 (energy monitor applies)."""
    if free_flight and nspheres is None and rng.random() < 0.3:
        return gen_cradle_scene(rng, common_eN)
    ns = nspheres or int(rng.integers(1, 5))
    scene = {"t0": 0.0, "bodies": [], "frames": [], "joints": [], "tpis": [], "laws": [], "actuators": [], "forces": [], "contacts": []}
    radii = []
    nplanes = int(rng.integers(1, 3))
    planes = []
    for k in range(nplanes):
        if k == 0:
            tilt = rot.quat_axis_angle(rng.normal(size=3), float(rng.uniform(0, 0.3))) if rng.random() < 0.5 else np.array([1.0, 0, 0, 0])
            planes.append({"r": [0.0, 0.0, 0.0], "p": tilt.tolist()})
        else:
            # a wall: normal roughly horizontal, placed away from the spheres
            n = np.array([1.0, 0.0, 0.0]) if rng.random() < 0.5 else np.array([0.0, 1.0, 0.0])
            ez = n
            ex = np.array([0.0, 0.0, 1.0])
            A = np.vstack([ex, np.cross(ez, ex), ez]).T
            planes.append({"r": (-2.0 * n).tolist(), "p": rot.mat_to_quat(A).tolist()})
    eN_common = float(rng.choice([0.0, 0.5, 1.0, rng.uniform(0, 1)])) if common_eN is None else common_eN
    for i in range(ns):
        rad = float(rng.uniform(0.08, 0.3))
        radii.append(rad)
        kind = "rigid" if rng.random() < 0.6 else "point"
        n0 = rot.quat_to_mat(planes[0]["p"])[:, 2]
        # place above the ground plane, separated from each other
        for _ in range(50):
            xy = rng.uniform(-1.2, 1.2, 2)
            h = rad + float(rng.choice([0.0, 0.0, rng.uniform(0.01, 0.8)])) if not free_flight else rad + float(rng.uniform(0.05, 1.0))
            base = np.array([xy[0], xy[1], 0.0])
            base = base - (base @ n0) * n0  # on the plane
            c = base + h * n0
            ok = all(np.linalg.norm(c - np.array(scene["bodies"][j]["r"])) > radii[j] + rad + 0.02 for j in range(i))
            # keep clear of the walls
            for pl in planes[1:]:
                nn = rot.quat_to_mat(pl["p"])[:, 2]
                if (c - np.array(pl["r"])) @ nn < rad + 0.05:
                    ok = False
            if ok:
                break
        else:
            continue
        b = {"kind": kind, "m": float(rng.uniform(0.3, 3.0)), "r": c.tolist(), "v": (rng.normal(size=3) * float(rng.uniform(0.2, 2.0))).tolist()}
        if h == rad and not free_flight:
            # resting / sliding start: no normal velocity
            v = np.array(b["v"])
            b["v"] = (v - (v @ n0) * n0).tolist() if rng.random() < 0.7 else [0.0, 0.0, 0.0]
        if kind == "rigid":
            x = 0.4 * b["m"] * rad**2
            b["theta"] = [x, x, x]
            if not free_flight and rng.random() < 0.4:
                # not a homogeneous ball: anisotropic inertia (friction directions then see different effective masses)
                f = rng.uniform(0.5, 2.0, 3)
                b["theta"] = [float(x * f[0] * (f[1] + f[2]) / 2), float(x * f[1] * (f[0] + f[2]) / 2), float(x * f[2] * (f[0] + f[1]) / 2)]
            b["p"] = rot.rand_quat(rng).tolist()
            b["w"] = (rng.normal(size=3) * float(rng.uniform(0, 6))).tolist()
        scene["bodies"].append(b)
    radii = radii[: len(scene["bodies"])]
    nb = len(scene["bodies"])
    for i in range(nb):
        for k, pl in enumerate(planes):
            mu = 0.0 if (free_flight or not friction) else float(rng.choice([0.0, 0.1, 0.3, 0.7, 1.0, rng.uniform(0, 1)]))
            eN = eN_common if (free_flight or rng.random() < 0.6) else float(rng.choice([0.0, 0.5, 1.0, rng.uniform(0, 1)]))
            scene["contacts"].append({"type": "s2p", "plane": pl, "body": i, "radius": radii[i], "mu": mu, "eN": eN, "eF": 0.0})
    if allow_s2s:
        for i in range(nb):
            for j in range(i + 1, nb):
                if rng.random() < 0.7:
                    mu = 0.0 if (free_flight or not friction) else float(rng.choice([0.0, 0.2, 0.6, 1.0]))
                    eN = eN_common if (free_flight or rng.random() < 0.6) else float(rng.uniform(0, 1))
                    scene["contacts"].append({"type": "s2s", "a": i, "b": j, "ra": radii[i], "rb": radii[j], "mu": mu, "eN": eN, "eF": 0.0})
    if free_flight:
        # aim spheres at each other / at the ground so that impacts happen
        for i, b in enumerate(scene["bodies"]):
            tgt = np.array(scene["bodies"][(i + 1) % nb]["r"]) if nb > 1 and rng.random() < 0.7 else np.array(b["r"]) * [1, 1, 0] - [0, 0, 1.0]
            d = tgt - np.array(b["r"])
            if np.linalg.norm(d) > 1e-6:
                b["v"] = (d / np.linalg.norm(d) * float(rng.uniform(0.5, 3.0)) + 0.3 * rng.normal(size=3)).tolist()
            if b["kind"] == "rigid":
                b["w"] = [0.0, 0.0, 0.0] if rng.random() < 0.5 else b["w"]
    else:
        scene["gravity"] = (-9.81 * np.array([0, 0, 1.0])).tolist()
    scene["common_eN"] = eN_common if all(c["eN"] == eN_common for c in scene["contacts"]) else None
    return scene


def gen_cradle_scene(rng, common_eN=None):
    """A row of touching, unloaded spheres hit by another one (force-free): the impact travels through contacts
    that are closed but carried no percussion in the previous step and are loaded only through their neighbours."""
    n = int(rng.integers(3, 6))
    eN = float(rng.choice([0.0, 0.5, 1.0, rng.uniform(0, 1)])) if common_eN is None else common_eN
    scene = {"t0": 0.0, "bodies": [], "frames": [], "joints": [], "tpis": [], "laws": [], "actuators": [], "forces": [], "contacts": []}
    d = rng.normal(size=3)
    d /= np.linalg.norm(d)
    x = 0.0
    radii = []
    start = rng.uniform(-0.5, 0.5, 3) + np.array([0, 0, 3.0])
    for i in range(n):
        rad = float(rng.uniform(0.1, 0.25))
        if i > 0:
            x += radii[-1] + rad + (float(rng.uniform(0.05, 0.3)) if i == 1 else 0.0)  # striker separated, the rest touching
        radii.append(rad)
        kind = "rigid" if rng.random() < 0.5 else "point"
        b = {"kind": kind, "m": float(rng.uniform(0.5, 2.0)), "r": (start + x * d).tolist(), "v": ((float(rng.uniform(1.0, 3.0)) * d) if i == 0 else np.zeros(3)).tolist()}
        if kind == "rigid":
            th = 0.4 * b["m"] * rad**2
            b.update(theta=[th, th, th], p=rot.rand_quat(rng).tolist(), w=[0.0, 0.0, 0.0])
        scene["bodies"].append(b)
    for i in range(n - 1):
        scene["contacts"].append({"type": "s2s", "a": i, "b": i + 1, "ra": radii[i], "rb": radii[i + 1], "mu": 0.0, "eN": eN, "eF": 0.0})
    scene["common_eN"] = eN
    scene["cradle"] = True
    return scene


def gen_rod_scene(rng, conservative=False, allow_body=True):
    """A Cosserat rod (any formulation) in a dynamic scene: clamped / hinged at one end to the origin,
    a (moving) frame or a rigid body, optionally carrying a rigid body at its tip; tip loads; gravity-like
    line load replaced by tip forces (the rod's own weight needs a distributed force)."""
    from .rods import gen_rod_spec

    spec = gen_rod_spec(rng)
    L = spec["L"]
    spec["nel"] = int(rng.integers(1, 3))
    # line density of order one so that the bending / axial frequencies stay moderate
    spec["rho"] = float(rng.uniform(0.5, 3.0) * 2000.0 / L**2)
    scene = {"t0": 0.0, "bodies": [], "frames": [], "joints": [], "tpis": [], "laws": [], "actuators": [], "forces": [], "contacts": [], "rods": []}
    r0 = rng.uniform(-0.3, 0.3, 3)
    p0 = rot.rand_quat(rng)
    scene["rods"].append({"spec": spec, "r0": r0.tolist(), "p0": p0.tolist()})
    A0 = rot.quat_to_mat(p0)
    x = rng.random()
    base = "origin"
    if not conservative and x < 0.25:
        motion = {"amp": rng.uniform(-0.05, 0.05, 3).tolist(), "w": float(rng.uniform(1, 4)), "axis": rng.normal(size=3).tolist(), "alpha": float(rng.uniform(0, 0.2))}
        scene["frames"].append({"r": r0.tolist(), "p": rot.rand_quat(rng).tolist(), "motion": motion})
        base = ["frame", 0]
    ty = str(rng.choice(["rigid", "rigid", "spherical", "revolute"]))
    jt = {"type": ty, "a": base, "b": ["rod", 0, 0.0], "axis": int(rng.integers(3)), "rJ": r0.tolist(), "pJ": p0.tolist()}
    if ty == "revolute":
        jt["angle0"] = 0.0
    scene["joints"].append(jt)
    tip = r0 + A0[:, 0] * L
    if allow_body and rng.random() < 0.4:
        b = gen_body(rng, tip, kind="rigid", spread=0.1, speed=0.0)
        b["m"] = float(rng.uniform(0.2, 1.5))
        b["v"] = [0.0, 0.0, 0.0]
        b["w"] = [0.0, 0.0, 0.0]
        scene["bodies"].append(b)
        scene["joints"].append({"type": str(rng.choice(["rigid", "spherical"])), "a": ["rod", 0, 1.0], "b": ["body", 0], "axis": 0, "rJ": tip.tolist(), "pJ": p0.tolist()})
        if rng.random() < 0.7:
            scene["gravity"] = [0.0, 0.0, -9.81 * float(rng.uniform(0.05, 0.3))]
    stiff = min(spec["Fi"]) / L**2
    scene["forces"].append({"type": "force" if conservative else str(rng.choice(["force", "b_force"])), "rod": 0, "xi": 1.0, "vec": (rng.normal(size=3) * stiff * 0.5).tolist(), "time": "const" if conservative else str(rng.choice(["const", "sin"])), "w": float(rng.uniform(1, 4))})
    if not conservative and rng.random() < 0.4:
        scene["forces"].append({"type": str(rng.choice(["moment", "b_moment"])), "rod": 0, "xi": float(rng.choice([0.5, 1.0])), "vec": (rng.normal(size=3) * min(spec["Fi"]) / L * 0.3).tolist(), "time": "const", "w": 1.0})
    return scene


def add_knife_edge(rng, scene, prob=0.3):
    """With probability ``prob`` put a user-defined nonholonomic (velocity-level) constraint on one rigid body that has
    freedom left (draws from rng only after the scene itself is complete)."""
    x = rng.random()
    rigid = [i for i, b in enumerate(scene["bodies"]) if b["kind"] == "rigid"]
    pick, rB, n = int(rng.integers(1 << 30)), rng.uniform(-0.3, 0.3, 3), rng.normal(size=3)
    if x >= prob or not rigid or scene.get("dof_estimate", 0) < 2:
        return scene
    scene["nonholonomic"] = [{"body": rigid[pick % len(rigid)], "rB": rB.tolist(), "n": n.tolist()}]
    return scene


def rotate_contact_scene(scene, quat, shift):
    """The same contact scene rigidly moved by (R, shift): bodies, planes (and their motion), gravity.  Physics does
    not know which way is up; code that compares signed components or takes maxima over coordinates might."""
    assert not scene.get("joints") and not scene.get("tpis") and not scene.get("forces") and not scene.get("frames")
    quat = np.asarray(quat, dtype=float)
    quat = quat / np.linalg.norm(quat)
    R = rot.quat_to_mat(quat)
    s = np.asarray(shift, dtype=float)
    for b in scene["bodies"]:
        b["r"] = (R @ np.array(b["r"]) + s).tolist()
        b["v"] = (R @ np.array(b["v"])).tolist()
        if b["kind"] == "rigid":
            b["p"] = rot.quat_mul(quat, np.array(b["p"], dtype=float)).tolist()  # body-fixed w and theta stay
    seen = set()
    for co in scene["contacts"]:
        pl = co.get("plane")
        if pl is None or id(pl) in seen:
            continue
        seen.add(id(pl))
        pl["r"] = (R @ np.array(pl["r"]) + s).tolist()
        pl["p"] = rot.quat_mul(quat, np.array(pl["p"], dtype=float)).tolist()
        if pl.get("motion"):
            pl["motion"]["amp"] = (R @ np.array(pl["motion"]["amp"])).tolist()  # the tilt axis is given in the plane's own basis
    if scene.get("gravity") is not None:
        scene["gravity"] = (R @ np.array(scene["gravity"])).tolist()
    scene["moved"] = True
    return scene


def gen_arm_on_floor_scene(rng):
    """A rigid arm on a revolute joint (horizontal axis) whose spherical foot rests on a plane at t0, driven by a motor
    or a PD / PID controller on the joint: actuator, bilateral constraint and closed contact act on the same
    coordinates."""
    L = float(rng.uniform(0.5, 1.5))
    rad = float(rng.uniform(0.05, 0.15))
    m = float(rng.uniform(0.5, 3.0))
    th = m * L**2 / 12.0
    body = {"kind": "rigid", "m": m, "theta": [0.1 * th, th, th], "r": [L / 2, 0.0, 0.0], "p": [1.0, 0.0, 0.0, 0.0], "v": [0.0, 0.0, 0.0], "w": [0.0, 0.0, 0.0]}
    scene = {"t0": 0.0, "bodies": [body], "frames": [], "joints": [], "tpis": [], "laws": [], "actuators": [], "forces": [], "contacts": []}
    scene["joints"].append({"type": "revolute", "a": "origin", "b": ["body", 0], "axis": 1, "rJ": [0.0, 0.0, 0.0], "pJ": [1.0, 0.0, 0.0, 0.0], "angle0": 0.0})
    scene["gravity"] = [0.0, 0.0, -9.81]
    x = rng.random()
    tau = float(rng.uniform(-1.5, 1.5) * m * 9.81 * L / 2)  # from pressing the foot down to lifting it off
    if x < 0.5:
        scene["actuators"].append({"type": "motor", "joint": 0, "tau": tau, "time": "const"})
    elif x < 0.8:
        scene["actuators"].append({"type": "pd", "joint": 0, "kp": float(rng.uniform(5, 40)), "kd": float(rng.uniform(0.1, 1)), "target": [float(rng.uniform(-0.5, 0.5)), 0.0]})
    else:
        scene["actuators"].append({"type": "pid", "joint": 0, "kp": float(rng.uniform(5, 40)), "ki": float(rng.uniform(1, 10)), "kd": float(rng.uniform(0.1, 1)), "target": [float(rng.uniform(-0.5, 0.5)), 0.0], "q0": float(rng.uniform(-0.2, 0.2))})
    mu = float(rng.choice([0.0, 0.3, 0.8]))
    scene["contacts"].append({"type": "s2p", "plane": {"r": [0.0, 0.0, -rad], "p": [1.0, 0.0, 0.0, 0.0]}, "body": 0, "radius": rad, "rB": [L / 2, 0.0, 0.0], "mu": mu, "eN": 0.0, "eF": 0.0})
    scene["dof_estimate"] = 1
    return scene


def gen_bar_on_supports_scene(rng):
    """A rigid bar resting on a plane on two or three spherical feet (several closed contacts on ONE body, coupled
    through it), loaded by gravity, an applied moment and / or an eccentric force: the contact-free acceleration may open
    one foot while the reaction of another presses it back."""
    L = float(rng.uniform(0.6, 2.0))
    rad = float(rng.uniform(0.03, 0.1))
    m = float(rng.uniform(0.5, 3.0))
    th = m * L**2 / 12.0
    body = {"kind": "rigid", "m": m, "theta": [0.2 * th, th, th], "r": [0.0, 0.0, rad], "p": [1.0, 0.0, 0.0, 0.0], "v": [0.0, 0.0, 0.0], "w": [0.0, 0.0, 0.0]}
    scene = {"t0": 0.0, "bodies": [body], "frames": [], "joints": [], "tpis": [], "laws": [], "actuators": [], "forces": [], "contacts": []}
    scene["gravity"] = [0.0, 0.0, -9.81]
    feet = [[-L / 2, 0.0, 0.0], [L / 2, 0.0, 0.0]]
    if rng.random() < 0.4:
        feet.append([0.0, float(rng.uniform(0.2, 0.6)) * L, 0.0])
    mu = float(rng.choice([0.0, 0.0, 0.3, 0.8]))
    for f in feet:
        scene["contacts"].append({"type": "s2p", "plane": {"r": [0.0, 0.0, 0.0], "p": [1.0, 0.0, 0.0, 0.0]}, "body": 0, "radius": rad, "rB": f, "mu": mu, "eN": 0.0, "eF": 0.0})
    # moment about the horizontal axis across the bar, from well below to above what tips the bar over one foot
    M = float(rng.uniform(-0.9, 0.9) * m * 9.81 * L / 2)
    scene["forces"].append({"type": "moment", "body": 0, "vec": [0.0, M, 0.0], "rB": [0, 0, 0], "time": "const"})
    if rng.random() < 0.5:
        scene["forces"].append({"type": "force", "body": 0, "vec": [float(rng.uniform(-3, 3)), float(rng.uniform(-1, 1)), float(rng.uniform(-5, 3))], "rB": [float(rng.uniform(-0.5, 0.5)) * L, 0.0, 0.0], "time": "const"})
    return scene


def gen_belt_scene(rng):
    """A ball / particle lying on a plane that is moved tangentially in time (conveyor belt, shaking table): closed,
    persistent contact at t0 whose slip velocity has an explicit time part (the belt's velocity).  The body is at rest
    (it slides on the belt), moves with the belt (it sticks), or has another tangential velocity."""
    from .scenes import FrameMotion

    p = rot.rand_quat(rng) if rng.random() < 0.5 else np.array([1.0, 0.0, 0.0, 0.0])
    A = rot.quat_to_mat(p)
    n = A[:, 2]
    amp = A[:, 0] * float(rng.uniform(-0.3, 0.3)) + A[:, 1] * float(rng.uniform(-0.3, 0.3))
    plane = {"r": rng.uniform(-0.5, 0.5, 3).tolist(), "p": np.asarray(p).tolist(), "motion": {"amp": amp.tolist(), "w": float(rng.uniform(1.0, 6.0)), "axis": [0.0, 0.0, 1.0], "alpha": 0.0}}
    t0 = float(np.round(rng.uniform(0.0, 3.0), 3))
    fm = FrameMotion(plane)
    vb = np.array(fm.r_t(t0), dtype=float)
    rad = float(rng.uniform(0.05, 0.3))
    c = np.array(fm.r(t0), dtype=float) + A[:, 0] * float(rng.uniform(-0.3, 0.3)) + A[:, 1] * float(rng.uniform(-0.3, 0.3)) + n * rad
    mode = str(rng.choice(["at_rest", "with_belt", "other"]))
    v = {"at_rest": np.zeros(3), "with_belt": vb, "other": vb + A[:, 0] * float(rng.uniform(-1, 1)) + A[:, 1] * float(rng.uniform(-1, 1))}[mode]
    kind = str(rng.choice(["rigid", "point"]))
    b = {"kind": kind, "m": float(rng.uniform(0.3, 3.0)), "r": c.tolist(), "v": v.tolist()}
    if kind == "rigid":
        x = 0.4 * b["m"] * rad**2
        b.update(theta=[x, x, x], p=rot.rand_quat(rng).tolist(), w=[0.0, 0.0, 0.0])
    return {
        "t0": t0,
        "bodies": [b],
        "frames": [],
        "joints": [],
        "tpis": [],
        "laws": [],
        "actuators": [],
        "forces": [],
        "gravity": (-9.81 * n).tolist(),
        "contacts": [{"type": "s2p", "plane": plane, "body": 0, "radius": rad, "mu": float(rng.uniform(0.2, 0.8)), "eN": 0.0, "eF": 0.0}],
        "belt_mode": mode,
    }
