"""Seams the simulator owns (DESIGN 2.2):

* ``tqdm`` in every solver module is replaced by ``SimProgress`` - never reads
  a clock, never writes, and is the step-boundary seam of the simulation;
* ``cardillo._verif`` sink: every convergence decision is reported, and a
  scheduled fault overrides all decisions of one loop instance to "not
  converged" (the loop then runs out its budget through the real code path);
* Python warnings and stdout are captured; warnings are observables.
"""

import contextlib
import hashlib
import io
import sys
import warnings

SOLVER_MODULES = [
    "cardillo.solver.moreau",
    "cardillo.solver.rattle",
    "cardillo.solver.backward_euler",
    "cardillo.solver.dual_stormer_verlet",
    "cardillo.solver.scipy_ivp",
    "cardillo.solver.scipy_dae",
    "cardillo.solver.statics",
]


def site_group(site):
    return "fsolve" if site.startswith("fsolve") else site


class Sim:
    def __init__(self, log, faults=(), on_step=None):
        self.log = log
        self.step = 0  # 0 = outside any stepping loop (assembly, constructors)
        self.loops = 0
        self.faults = {tuple(f) for f in faults}  # (group, step, occurrence)
        self.fired = {}  # fault -> number of overridden decisions
        self.occ = {}  # (group, step) -> occurrence counter
        self.open = {}  # (group, step) -> last decision was "not converged" (instance still open)
        self.instances = []  # [group, step, occ, last_organic, last_final, n_decisions, first_seq]
        self.cur = {}  # (group, step) -> index into instances
        self.warnings = []  # (seq, category, text)
        self.on_step = on_step
        self.stdout = io.StringIO()
        self.active = False
        self.n_decisions = 0
        self.max_decisions = 80000

    # ------------------------------------------------------------ tqdm stub
    def progress(self, iterable=None, *a, **kw):
        sim = self

        class SimProgress:
            def __iter__(self_p):
                sim.loops += 1
                # a new stepping loop: loop-instance bookkeeping starts afresh
                sim.occ, sim.open, sim.cur = {}, {}, {}
                for k, x in enumerate(iterable):
                    sim.step = k + 1
                    sim.log.ev("step_begin", sim.loops, k + 1)
                    if sim.on_step is not None:
                        sim.on_step(k + 1)
                    yield x
                sim.log.ev("loop_end", sim.loops)
                sim.step = 0

            def set_description(self_p, *a, **k):
                pass

            def update(self_p, *a, **k):
                pass

            def close(self_p):
                pass

            def refresh(self_p, *a, **k):
                pass

        return SimProgress()

    # ------------------------------------------------------------ decision sink
    def sink(self, site, value):
        self.n_decisions += 1
        if self.n_decisions > self.max_decisions:
            from .core import Discard

            raise Discard("decision_budget")
        value = bool(value)
        g = site_group(site)
        key = (g, self.step)
        new_instance = site == "fsolve.initial" or (g != "fsolve" and not self.open.get(key, False))
        if g == "fsolve" and site == "fsolve.iter" and key not in self.cur:
            new_instance = True
        if new_instance:
            self.occ[key] = self.occ.get(key, 0) + 1
            self.instances.append([g, self.step, self.occ[key], value, value, 0, self.log.seq + 1])
            self.cur[key] = len(self.instances) - 1
        inst = self.instances[self.cur[key]]
        fkey = (g, self.step, inst[2])
        final = value
        if fkey in self.faults:
            final = False
            self.fired[fkey] = self.fired.get(fkey, 0) + 1
        inst[3], inst[4] = value, final
        inst[5] += 1
        self.open[key] = not final
        self.log.ev("decide", site, self.step, inst[2], value, final)
        return final

    def failed_instances(self):
        """Loop instances whose last decision was 'not converged' (forced or organic)."""
        return [i for i in self.instances if not i[4]]

    # ------------------------------------------------------------ warnings
    def _showwarning(self, message, category, filename, lineno, file=None, line=None):
        text = str(message)
        seq = self.log.ev("warning", category.__name__, text)
        self.warnings.append((seq, category.__name__, text))

    @contextlib.contextmanager
    def installed(self):
        import importlib
        from cardillo import _verif

        if not _verif.ENABLED:
            raise RuntimeError("cardillo._verif is not enabled (CARDILLOPROJECT_CARDILLO_VERIF=1 must be set before import)")
        mods = [importlib.import_module(m) for m in SOLVER_MODULES]
        saved = [(m, m.tqdm) for m in mods]
        old_show = warnings.showwarning
        try:
            for m in mods:
                m.tqdm = self.progress
            _verif.install(self.sink)
            with warnings.catch_warnings(), contextlib.redirect_stdout(self.stdout), contextlib.redirect_stderr(self.stdout):
                warnings.simplefilter("always")
                warnings.showwarning = self._showwarning
                self.active = True
                yield self
        finally:
            self.active = False
            warnings.showwarning = old_show
            _verif.install(None)
            for m, t in saved:
                m.tqdm = t
            out = self.stdout.getvalue()
            self.log.ev("stdout", len(out), hashlib.sha256(out.encode()).hexdigest()[:16])
