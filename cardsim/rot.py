"""Independent rotation helpers of the harness (never cardillo's own)."""

import numpy as np


def skew(a):
    return np.array([[0, -a[2], a[1]], [a[2], 0, -a[0]], [-a[1], a[0], 0.0]])


def quat_mul(p, q):
    p0, pv = p[0], p[1:]
    q0, qv = q[0], q[1:]
    return np.concatenate([[p0 * q0 - pv @ qv], p0 * qv + q0 * pv + np.cross(pv, qv)])


def quat_conj(p):
    return np.array([p[0], -p[1], -p[2], -p[3]])


def quat_axis_angle(axis, angle):
    axis = np.asarray(axis, dtype=float)
    axis = axis / np.linalg.norm(axis)
    return np.concatenate([[np.cos(0.5 * angle)], np.sin(0.5 * angle) * axis])


def quat_to_mat(p):
    p = np.asarray(p, dtype=float)
    p = p / np.linalg.norm(p)
    w, x, y, z = p
    return np.array(
        [
            [1 - 2 * (y * y + z * z), 2 * (x * y - w * z), 2 * (x * z + w * y)],
            [2 * (x * y + w * z), 1 - 2 * (x * x + z * z), 2 * (y * z - w * x)],
            [2 * (x * z - w * y), 2 * (y * z + w * x), 1 - 2 * (x * x + y * y)],
        ]
    )


def mat_to_quat(A):
    """Shepperd's method (independent of cardillo's Spurrier)."""
    tr = A[0, 0] + A[1, 1] + A[2, 2]
    cand = [tr, A[0, 0], A[1, 1], A[2, 2]]
    k = int(np.argmax(cand))
    if k == 0:
        w = 0.5 * np.sqrt(1 + tr)
        return np.array([w, (A[2, 1] - A[1, 2]) / (4 * w), (A[0, 2] - A[2, 0]) / (4 * w), (A[1, 0] - A[0, 1]) / (4 * w)])
    i = k - 1
    j, l = (i + 1) % 3, (i + 2) % 3
    x = 0.5 * np.sqrt(max(1 + A[i, i] - A[j, j] - A[l, l], 0.0))
    v = np.zeros(3)
    v[i] = x
    v[j] = (A[j, i] + A[i, j]) / (4 * x)
    v[l] = (A[l, i] + A[i, l]) / (4 * x)
    w = (A[l, j] - A[j, l]) / (4 * x)
    return np.concatenate([[w], v])


def rand_quat(rng):
    p = rng.normal(size=4)
    n = np.linalg.norm(p)
    if n < 1e-3:
        return np.array([1.0, 0, 0, 0])
    return p / n


def rot_axis(c, angle):
    """Rotation matrix about coordinate axis c (0,1,2)."""
    e = np.zeros(3)
    e[c] = 1.0
    return quat_to_mat(quat_axis_angle(e, angle))
