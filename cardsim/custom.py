"""User-defined contributions (duck-typed, like ``Truss2D`` in the repository's own tests).

cardillo's ``System`` accepts any object that offers the contribution
interface.  The library's own bodies all have constant mass matrices, so the
code paths for a configuration-dependent mass matrix (``I_M``, ``Mu_q``, the
places where a solver has to decide *which* configuration ``M`` is taken at)
are only reachable through such objects.
"""

import numpy as np


class PolarParticle:
    """Planar particle in polar coordinates q = (r, phi), u = (r_dot, phi_dot).

    T = m/2 (r_dot^2 + r^2 phi_dot^2),  V = k/2 (r - l0)^2 + m g r sin(phi)
    M(q) = diag(m, m r^2);  M u_dot = h(q, u) with the Coriolis / centrifugal terms in h.
    """

    def __init__(self, m, k, l0, grav, q0, u0, name="polar"):
        self.m, self.k, self.l0, self.grav = float(m), float(k), float(l0), float(grav)
        self.nq = self.nu = 2
        self.q0 = np.array(q0, dtype=float)
        self.u0 = np.array(u0, dtype=float)
        self.name = name
        self.constant_mass_matrix = False

    def local_qDOF_P(self, xi=None):
        return np.arange(2)

    def local_uDOF_P(self, xi=None):
        return np.arange(2)

    def q_dot(self, t, q, u):
        return np.array(u, dtype=np.common_type(q, u))

    def q_dot_q(self, t, q, u):
        return np.zeros((2, 2))

    def q_dot_u(self, t, q):
        return np.eye(2)

    def q_ddot(self, t, q, u, u_dot):
        return np.array(u_dot)

    def M(self, t, q):
        return np.diag([self.m, self.m * q[0] ** 2]).astype(q.dtype)

    def Mu_q(self, t, q, u):
        out = np.zeros((2, 2), dtype=np.common_type(q, u))
        out[1, 0] = 2 * self.m * q[0] * u[1]
        return out

    def h(self, t, q, u):
        m, k, l0, g = self.m, self.k, self.l0, self.grav
        r, ph = q
        rd, pd = u
        return np.array(
            [m * r * pd**2 - k * (r - l0) - m * g * np.sin(ph), -2 * m * r * rd * pd - m * g * r * np.cos(ph)],
            dtype=np.common_type(q, u),
        )

    def h_q(self, t, q, u):
        m, k, g = self.m, self.k, self.grav
        r, ph = q
        rd, pd = u
        return np.array([[m * pd**2 - k, -m * g * np.cos(ph)], [-2 * m * rd * pd - m * g * np.cos(ph), m * g * r * np.sin(ph)]], dtype=np.common_type(q, u))

    def h_u(self, t, q, u):
        m = self.m
        r = q[0]
        rd, pd = u
        return np.array([[0.0, 2 * m * r * pd], [-2 * m * r * pd, -2 * m * r * rd]], dtype=np.common_type(q, u))

    def E_kin(self, t, q, u):
        return 0.5 * self.m * (u[0] ** 2 + q[0] ** 2 * u[1] ** 2)

    def E_pot(self, t, q):
        return 0.5 * self.k * (q[0] - self.l0) ** 2 + self.m * self.grav * q[0] * np.sin(q[1])

    def step_callback(self, t, q, u):
        return q, u


class CircleGuide:
    """Bilateral constraint: the particle stays on a circle (centre c, radius R) given in Cartesian coordinates.

    g = 1/2 (|x(q) - c|^2 - R^2),  x = (r cos phi, r sin phi)
    """

    def __init__(self, particle, c, R, name="circle"):
        self.subsystem = particle
        self.c = np.array(c, dtype=float)
        self.R = float(R)
        self.nla_g = 1
        self.name = name

    def assembler_callback(self):
        self.qDOF = self.subsystem.qDOF
        self.uDOF = self.subsystem.uDOF

    def _x(self, q):
        r, ph = q
        return np.array([r * np.cos(ph), r * np.sin(ph)]) - self.c

    def _J(self, q):
        r, ph = q
        return np.array([[np.cos(ph), -r * np.sin(ph)], [np.sin(ph), r * np.cos(ph)]])

    def _H(self, q):
        r, ph = q
        x = self._x(q)
        J = self._J(q)
        d2x1 = np.array([[0.0, -np.sin(ph)], [-np.sin(ph), -r * np.cos(ph)]])
        d2x2 = np.array([[0.0, np.cos(ph)], [np.cos(ph), -r * np.sin(ph)]])
        return J.T @ J + x[0] * d2x1 + x[1] * d2x2

    def g(self, t, q):
        x = self._x(q)
        return np.array([0.5 * (x @ x - self.R**2)])

    def g_q(self, t, q):
        return (self._x(q) @ self._J(q)).reshape(1, 2)

    def g_dot(self, t, q, u):
        return self.g_q(t, q) @ u

    def g_dot_q(self, t, q, u):
        return (self._H(q) @ u).reshape(1, 2)

    def g_dot_u(self, t, q):
        return self.g_q(t, q)

    def g_ddot(self, t, q, u, u_dot):
        return self.g_q(t, q) @ u_dot + np.array([u @ self._H(q) @ u])

    def W_g(self, t, q):
        return self.g_q(t, q).T

    def Wla_g_q(self, t, q, la_g):
        return la_g[0] * self._H(q)


def build_polar(spec, state=None):
    """spec: {m, k, l0, grav, c, R, theta, speed} -> (System, particle, guide); state: optional {"q", "u", "t0"}"""
    import contextlib
    import io

    from cardillo import System

    c, R = np.array(spec["c"], dtype=float), float(spec["R"])
    if state is None:
        x = c + R * np.array([np.cos(spec["theta"]), np.sin(spec["theta"])])
        q0 = np.array([np.linalg.norm(x), np.arctan2(x[1], x[0])])
        p = PolarParticle(spec["m"], spec["k"], spec["l0"], spec["grav"], q0, np.zeros(2))
        gq = CircleGuide(p, c, R).g_q(0.0, q0)[0]
        tang = np.array([-gq[1], gq[0]])
        u0 = spec["speed"] * tang / np.linalg.norm(tang)
        t0 = 0.0
    else:
        q0, u0, t0 = np.array(state["q"], dtype=float), np.array(state["u"], dtype=float), float(state.get("t0", 0.0))
    p = PolarParticle(spec["m"], spec["k"], spec["l0"], spec["grav"], q0, u0)
    guide = CircleGuide(p, c, R)
    system = System(t0=t0)
    system.add(p, guide)
    if spec.get("actuator"):
        a = spec["actuator"]
        system.add(AnchorSpringActuator(p, a["anchor"], a["k"], a["l0"]))
    with contextlib.redirect_stdout(io.StringIO()):
        system.assemble()
    return system, p, guide


class KnifeEdge:
    """Nonholonomic (velocity-level) constraint on a rigid body, in the style of the rolling condition of the
    repository's rolling-disc example: the body point P (body-fixed offset B_r_CP) has no velocity along the
    body-fixed direction n (a skate / knife edge).

    gamma = (A_IB n) . v_P
    """

    def __init__(self, body, B_r_CP, n, name="knife_edge"):
        self.subsystem = body
        self.B_r_CP = np.array(B_r_CP, dtype=float)
        n = np.array(n, dtype=float)
        self.n = n / np.linalg.norm(n)
        self.nla_gamma = 1
        self.name = name

    def assembler_callback(self):
        self.qDOF = self.subsystem.qDOF[self.subsystem.local_qDOF_P()]
        self.uDOF = self.subsystem.uDOF[self.subsystem.local_uDOF_P()]

    def gamma(self, t, q, u):
        s = self.subsystem
        return np.array([(s.A_IB(t, q) @ self.n) @ s.v_P(t, q, u, B_r_CP=self.B_r_CP)])

    def gamma_u(self, t, q):
        s = self.subsystem
        return ((s.A_IB(t, q) @ self.n) @ s.J_P(t, q, B_r_CP=self.B_r_CP)).reshape(1, -1)

    def gamma_q(self, t, q, u):
        from cardillo.math.approx_fprime import approx_fprime

        return approx_fprime(q, lambda q: self.gamma(t, q, u), method="cs", eps=1.0e-15).reshape(1, -1)

    def gamma_dot(self, t, q, u, u_dot):
        return self.gamma_q(t, q, u) @ self.subsystem.q_dot(t, q, u) + self.gamma_u(t, q) @ u_dot

    def gamma_dot_u(self, t, q, u, u_dot):
        from cardillo.math.approx_fprime import approx_fprime

        return approx_fprime(u, lambda u: self.gamma_dot(t, q, u, u_dot), method="cs", eps=1.0e-15).reshape(1, -1)

    def gamma_dot_q(self, t, q, u, u_dot):
        from cardillo.math.approx_fprime import approx_fprime

        return approx_fprime(q, lambda q: self.gamma_dot(t, q, u, u_dot)).reshape(1, -1)

    def W_gamma(self, t, q):
        return self.gamma_u(t, q).T

    def Wla_gamma_q(self, t, q, la_gamma):
        from cardillo.math.approx_fprime import approx_fprime

        return approx_fprime(q, lambda q: self.gamma_u(t, q).T @ la_gamma)


class AnchorSpringActuator:
    """A (conservative) actuator on the polar particle: a linear spring to a fixed anchor point given in Cartesian
    coordinates, written in the actuator interface (`W_tau(q) la_tau(q)`): the direction `W_tau` of its generalized
    force changes with the configuration - the library's own actuators (on revolute joints) all have constant ones.

    l(q) = |x(q) - a|,  la_tau = -k (l - l0),  W_tau = J(q)^T (x - a) / l,  V = k/2 (l - l0)^2
    """

    def __init__(self, particle, anchor, k, l0, name="anchor_spring"):
        self.subsystem = particle
        self.a = np.array(anchor, dtype=float)
        self.k, self.l0 = float(k), float(l0)
        self.nla_tau = 1
        self.ntau = 1
        self.tau = lambda t: np.zeros(1)
        self.name = name

    def assembler_callback(self):
        self.qDOF = self.subsystem.qDOF
        self.uDOF = self.subsystem.uDOF

    def _geo(self, q):
        r, ph = q
        x = np.array([r * np.cos(ph), r * np.sin(ph)]) - self.a
        J = np.array([[np.cos(ph), -r * np.sin(ph)], [np.sin(ph), r * np.cos(ph)]])
        l = np.sqrt(x @ x)
        return x, J, l

    def W_tau(self, t, q):
        x, J, l = self._geo(q)
        return (J.T @ (x / l)).reshape(2, 1)

    def la_tau(self, t, q, u):
        _, _, l = self._geo(q)
        return np.array([-self.k * (l - self.l0)])

    def _f(self, q):
        return self.W_tau(0.0, q)[:, 0] * self.la_tau(0.0, q, None)[0]

    def Wla_tau_q(self, t, q, u):
        h = 1e-6
        out = np.zeros((2, 2))
        for j in range(2):
            e = np.zeros(2)
            e[j] = h
            out[:, j] = (self._f(q + e) - self._f(q - e)) / (2 * h)
        return out

    def Wla_tau_u(self, t, q, u):
        return np.zeros((2, 2))

    def E_pot(self, t, q):
        _, _, l = self._geo(q)
        return 0.5 * self.k * (l - self.l0) ** 2


class PoisonedForce:
    """Fault F1n: a user force law that stops being evaluable at time / load level ``t_p`` (0/0, root of a negative
    number, overflow ...): from then on it evaluates to NaN.  Before, it contributes nothing."""

    def __init__(self, body, t_p, name="poisoned_force"):
        self.subsystem = body
        self.t_p = float(t_p)
        self.name = name

    def assembler_callback(self):
        self.qDOF = self.subsystem.qDOF
        self.uDOF = self.subsystem.uDOF

    def h(self, t, q, u):
        n = len(self.uDOF)
        return np.zeros(n) if t < self.t_p else np.full(n, np.nan)

    def h_q(self, t, q, u):
        return np.zeros((len(self.uDOF), len(self.qDOF)))
