"""C23 - static solvers return equilibria and are frame-indifferent (DESIGN 5.9)."""

import contextlib
import io

import numpy as np

from ..core import violation, Discard
from ..rods import gen_rod_spec, build_rod, rod_class
from ..scenes import build
from ..seams import Sim
from .. import rot
from .solution import static_scene, Truss2D

PROPERTY = "C23"
LEVEL = "exploration"
BUDGET = {"quick": 288, "thorough": 12000}
CHUNK = 1
RUN_TIMEOUT_S = 1500
MAX_DISCARD_FRACTION = 0.4
RULE = (
    "seeded static problems: clamped cantilevers for every rod formulation (3 interpolations x displacement-based / mixed x "
    "unconstrained / constrained, degree 1..2, 1..3 elements) with tip force and body-fixed tip moment ramped over 1..6 load "
    "steps; rigid body on springs; sphere pressed onto a plane (static Signorini); Riks on the snap-through truss and on a "
    "cantilever. Every returned load step / arc-length point is checked with residuals recomputed by the harness from the "
    "System's model functions against the solver's own scaled criterion (reconstructed from the warm start); unit "
    "quaternions; static Signorini; forced Newton failure (F1) at a seeded load step: a run that stops early must say so and "
    "must not contain the failed step; frame indifference: the same problem rigidly moved by a random (R, r) must give the "
    "moved equilibria. distinct = (problem kind, rod formulation, load steps, fault, placement); non-trivial = solution with "
    ">= 2 points whose last point differs from the reference configuration"
)
RULE += " Rigid static problems may carry initial velocities and Kelvin-Voigt dampers (a static solution must not see them)."
RULE += " The truss arc-length runs are repeated with one corrector solve forced not to converge (F1): raise, or equilibria only and an early stop that says so."
COMPONENTS = {
    "real": ["solver.statics.Newton / Riks", "fsolve", "all Cosserat rod formulations", "RigidConnection, Force, B_Moment, springs, Sphere2Plane", "System"],
    "stub": ["tqdm -> SimProgress (load-step seam)", "Truss2D duck-typed contribution (from the repository's own test)"],
    "model": ["equilibrium / constraint / compliance / Signorini residuals evaluated by the harness from System methods", "rigid motion (R, r) applied to the whole problem"],
}
ASSUMPTIONS = [
    "bound = 50 x the solver's scaled criterion reconstructed with the harness's residual at the warm start of the load step",
    "frame-indifference tolerance 1e-7*(1+scale) with Newton tolerance 1e-10",
]
REQUIRED_PROBES = {"quick": ["static_with_initial_velocities", "cantilever_solved", "frame_indifference_checked", "riks_points_checked", "signorini_static_closed", "fault_fired", "rigid_static_solved"]}
KINDS = ["cantilever", "cantilever", "frame", "rigid", "signorini", "riks_truss", "riks_cantilever", "cantilever_fault", "frame", "signorini_linear", "rigid_pd"]


def gen(rng, tier, index):
    kind = KINDS[index % len(KINDS)]
    plan = {"kind": kind, "tol": float(rng.choice([1e-8, 1e-10])), "n_load_steps": int(rng.integers(1, 7))}
    if kind in ("cantilever", "frame", "cantilever_fault", "riks_cantilever"):
        spec = gen_rod_spec(rng)
        if kind == "riks_cantilever":
            spec["constraints"] = None
        plan["rod"] = spec
        L = spec["L"]
        plan["force"] = (rng.normal(size=3) * float(rng.uniform(0.2, 1.5)) * min(spec["Fi"]) / L**2).tolist()
        plan["moment"] = (rng.normal(size=3) * float(rng.uniform(0.0, 1.5)) * min(spec["Fi"]) / L).tolist()
        plan["R"] = rot.rand_quat(rng).tolist()
        if rng.random() < 0.35:
            # placements close to a half turn: the real part of the nodal quaternions is near zero and
            # changes sign along the deformed rod
            plan["R"] = rot.quat_axis_angle(rng.normal(size=3), np.pi + float(rng.uniform(-0.4, 0.4))).tolist()
        plan["r"] = rng.uniform(-2, 2, 3).tolist()
        plan["placed"] = bool(rng.random() < 0.6)
        if rng.random() < 0.4:
            plan["ecc"] = (rng.uniform(-0.15, 0.15, 3) * L * np.array([0.0, 1.0, 1.0])).tolist()
        if rng.random() < 0.4:
            plan["lead_body"] = {"m": float(rng.uniform(0.5, 2)), "theta": rng.uniform(0.1, 0.5, 3).tolist(), "offset": rng.uniform(-0.5, 0.5, 3).tolist()}
        if kind == "frame":
            plan["tol"] = 1e-10
        if kind == "cantilever_fault":
            plan["n_load_steps"] = int(rng.integers(2, 6))
            plan["fault_step"] = int(rng.integers(1, plan["n_load_steps"] + 2))
        if kind == "riks_cantilever":
            plan["la_arc0"] = float(rng.choice([1e-3, 1e-2]))
    elif kind == "rigid":
        plan["scene"] = static_scene(rng)
        if rng.random() < 0.6:
            # the same system object often serves a dynamic run too: its bodies carry initial velocities and some
            # force elements are velocity dependent (dampers, gyroscopic terms) - a static solution must not see them
            b = plan["scene"]["bodies"][0]
            b["v"], b["w"] = (rng.normal(size=3) * 2).tolist(), (rng.normal(size=3) * 3).tolist()
            for lw in plan["scene"]["laws"]:
                if rng.random() < 0.5:
                    lw.update(type="kv", d=float(rng.uniform(1, 10)))
            plan["moving_initial_state"] = True
    elif kind == "rigid_pd":
        # a pendulum held against gravity by a feedback actuator (PD / PID controller whose target angle is ramped with the
        # load parameter) or an open-loop motor: the actuator force depends on the configuration being solved for
        L, m = float(rng.uniform(0.3, 1.0)), float(rng.uniform(0.5, 2.0))
        b = {"kind": "rigid", "m": m, "theta": [0.05, 0.06, 0.07], "r": [L, 0.0, 0.0], "p": [1.0, 0, 0, 0], "v": [0, 0, 0], "w": [0, 0, 0]}
        x = rng.random()
        if x < 0.6:
            act = {"type": "pd", "joint": 0, "kp": float(rng.uniform(1, 30)), "kd": float(rng.uniform(0.1, 1)), "target": [float(rng.uniform(-0.8, 0.8)), 0.0], "time": "ramp"}
        elif x < 0.8:
            act = {"type": "pid", "joint": 0, "kp": float(rng.uniform(1, 30)), "ki": 0.0, "kd": float(rng.uniform(0.1, 1)), "target": [float(rng.uniform(-0.8, 0.8)), 0.0], "time": "ramp", "q0": 0.0}
        else:
            act = {"type": "motor", "joint": 0, "tau": float(rng.uniform(-0.25, 0.25) * m * 9.81 * L), "time": "ramp"}
        plan["scene"] = {
            "t0": 0.0,
            "bodies": [b],
            "frames": [],
            "joints": [{"type": "revolute", "a": "origin", "b": ["body", 0], "axis": 1, "rJ": [0, 0, 0], "pJ": None, "angle0": 0.0}],
            "tpis": [],
            "laws": [{"type": "spring", "on": ["joint", 0], "k": float(rng.uniform(0.0, 5.0)), "l_ref": 0.0, "compliance": bool(rng.random() < 0.3)}],
            "actuators": [act],
            "forces": [],
            "contacts": [],
            "gravity": [0.0, 0.0, -9.81 * float(rng.uniform(0.3, 1.0))],
        }
        plan["n_load_steps"] = int(rng.integers(3, 9))
    elif kind == "signorini_linear":
        # linear structures (bodies on prismatic guides and axial springs) whose contacts close in the MIDDLE of a load
        # step: Newton's update computed with the old contact state is exact, the contact state changes in the last
        # iteration
        n = int(rng.integers(1, 3))
        plan["n_load_steps"] = int(rng.integers(2, 7))
        plan["cols"] = []
        for i in range(n):
            k = float(rng.uniform(5, 40))
            F = float(rng.uniform(2, 10))
            tc = float((int(rng.integers(0, plan["n_load_steps"])) + rng.uniform(0.2, 0.8)) / plan["n_load_steps"])  # closing load fraction
            plan["cols"].append({"k": k, "F": F, "gap": F * tc / k, "m": float(rng.uniform(0.5, 2)), "x": 2.0 * i})
    elif kind in ("signorini", "riks_signorini"):
        if kind == "riks_signorini":
            plan["la_arc0"] = float(rng.choice([1e-3, 1e-2]))
        plan["push"] = float(rng.uniform(-3, 3))  # < 0 pulls the sphere off the plane at full load
        plan["k"] = float(rng.uniform(5, 40))
        plan["m"] = float(rng.uniform(0.5, 2))
    else:
        plan["truss"] = {"k": float(rng.uniform(0.5, 2)), "phi0": float(rng.uniform(0.5, 1.0)), "w": 1.0}
        plan["la_arc0"] = float(rng.choice([1e-6, 1e-4, 1e-3]))
        plan["span"] = [-1.0, float(rng.uniform(0.2, 0.8))]
    if kind == "riks_truss":
        # fault F1 in the arc-length solver: one corrector solve (chosen among those the fault-free run makes) never
        # converges
        plan["riks_fault"] = int(index // len(KINDS))
    return plan


# ------------------------------------------------------------------ problems
def build_cantilever(plan, moved):
    from cardillo import System
    from cardillo.discrete import Frame
    from cardillo.constraints import RigidConnection
    from cardillo.forces import Force, B_Moment
    from cardillo.solver import SolverOptions

    R = rot.quat_to_mat(plan["R"]) if moved else np.eye(3)
    r = np.array(plan["r"]) if moved else np.zeros(3)
    rod = build_rod(plan["rod"], r0=r, A0=R)
    system = System()
    frame = Frame(r_OP=r, A_IB=R, name="clamp_frame")
    clamp = RigidConnection(frame, rod, xi2=(0,), name="clamp")
    F = R @ np.array(plan["force"])
    Mo = np.array(plan["moment"])
    # the tip force may attack at an eccentric point of the end cross-section (body-fixed offset)
    ecc = np.array(plan.get("ecc", [0.0, 0.0, 0.0]), dtype=float)
    force = Force(lambda t, F=F: t * F, rod, (1,), B_r_CP=ecc, name="tip_force")
    moment = B_Moment(lambda t, Mo=Mo: t * Mo, rod, (1,), name="tip_moment")
    if plan.get("lead_body"):
        # another contribution with coordinates is registered before the rod (welded to the support): the rod's
        # coordinates then do not start at index 0 of the system's vector
        from cardillo.discrete import RigidBody

        lb = plan["lead_body"]
        rb = r + R @ np.array(lb["offset"])
        body = RigidBody(lb["m"], np.diag(lb["theta"]), q0=np.concatenate([rb, rot.mat_to_quat(R)]), name="lead_body")
        weld = RigidConnection(frame, body, name="weld")
        system.add(frame, body, weld, rod, clamp, force, moment)
    else:
        system.add(frame, rod, clamp, force, moment)
    with contextlib.redirect_stdout(io.StringIO()):
        system.assemble(options=SolverOptions(compute_consistent_initial_conditions=False))
    return system, rod


def build_signorini_linear(plan):
    """Bodies on vertical prismatic guides, each hanging on an axial spring from an anchor straight above, pressed down
    by a ramped force towards a frictionless plane at distance ``gap`` below."""
    sc = {"t0": 0.0, "bodies": [], "frames": [], "joints": [], "tpis": [], "laws": [], "actuators": [], "forces": [], "contacts": []}
    for i, c in enumerate(plan["cols"]):
        rad = 0.1
        z = rad + c["gap"]
        sc["bodies"].append({"kind": "rigid", "m": c["m"], "theta": [0.01, 0.01, 0.01], "r": [c["x"], 0.0, z], "p": [1.0, 0, 0, 0], "v": [0, 0, 0], "w": [0, 0, 0]})
        sc["frames"].append({"r": [c["x"], 0.0, z + 1.0], "p": [1.0, 0, 0, 0], "motion": None})
        sc["joints"].append({"type": "prismatic", "a": "origin", "b": ["body", i], "axis": 2, "rJ": [c["x"], 0.0, z], "pJ": [1.0, 0, 0, 0]})
        sc["tpis"].append({"a": ["frame", i], "b": ["body", i], "ra": [0, 0, 0], "rb": [0, 0, 0]})
        sc["laws"].append({"type": "spring", "on": ["tpi", i], "k": c["k"], "l_ref": None, "compliance": False})
        sc["forces"].append({"type": "force", "body": i, "vec": [0.0, 0.0, -c["F"]], "rB": [0, 0, 0], "time": "ramp"})
        sc["contacts"].append({"type": "s2p", "plane": {"r": [0, 0, 0], "p": [1.0, 0, 0, 0]}, "body": i, "radius": rad, "mu": 0.0, "eN": 0.0, "eF": 0.0})
    return sc


def build_signorini(plan):
    """A sphere on a plane, held laterally by springs, loaded by a ramped normal force."""
    sc = {
        "t0": 0.0,
        "bodies": [{"kind": "rigid", "m": plan["m"], "theta": [0.01, 0.01, 0.01], "r": [0.0, 0.0, 0.1], "p": [1.0, 0, 0, 0], "v": [0, 0, 0], "w": [0, 0, 0]}],
        "frames": [{"r": [1.0, 0.3, 0.1], "p": [1.0, 0, 0, 0], "motion": None}, {"r": [-0.8, 0.9, 0.1], "p": [1.0, 0, 0, 0], "motion": None}, {"r": [-0.2, -1.1, 0.1], "p": [1.0, 0, 0, 0], "motion": None}],
        "joints": [],
        "tpis": [{"a": ["frame", k], "b": ["body", 0], "ra": [0, 0, 0], "rb": [0.0, 0.0, 0.02 * (k - 1)]} for k in range(3)],
        "laws": [{"type": "spring", "on": ["tpi", k], "k": plan["k"], "l_ref": None, "compliance": False} for k in range(3)],
        "actuators": [],
        "forces": [
            {"type": "force", "body": 0, "vec": [0.3, -0.2, -plan["push"]], "rB": [0, 0, 0], "time": "ramp"},
            {"type": "force", "body": 0, "vec": [0.0, 0.0, -1.0], "rB": [0, 0, 0], "time": "const"},
            {"type": "b_moment", "body": 0, "vec": [0.0, 0.0, 0.0], "time": "const"},
        ],
        "contacts": [{"type": "s2p", "plane": {"r": [0, 0, 0], "p": [1.0, 0, 0, 0]}, "body": 0, "radius": 0.1, "mu": 0.0, "eN": 0.0, "eF": 0.0}],
    }
    # torsional stiffness so that the orientation is determined
    sc["tpis"].append({"a": ["frame", 0], "b": ["body", 0], "ra": [0, 0, 0.3], "rb": [0.05, 0.0, 0.05]})
    sc["laws"].append({"type": "spring", "on": ["tpi", 3], "k": plan["k"], "l_ref": None, "compliance": False})
    sc["tpis"].append({"a": ["frame", 1], "b": ["body", 0], "ra": [0, 0, -0.3], "rb": [0.0, 0.05, -0.05]})
    sc["laws"].append({"type": "spring", "on": ["tpi", 4], "k": plan["k"], "l_ref": None, "compliance": False})
    sc["tpis"].append({"a": ["frame", 2], "b": ["body", 0], "ra": [0.3, 0, 0.2], "rb": [-0.05, 0.05, 0.0]})
    sc["laws"].append({"type": "spring", "on": ["tpi", 5], "k": plan["k"], "l_ref": None, "compliance": False})
    return sc


# ------------------------------------------------------------------ residuals (harness)
def residual(system, t, q, la_g, la_c, la_N):
    u0 = np.zeros(system.nu)
    F = (
        system.h(t, q, u0)
        + system.W_tau(t, q).toarray() @ system.la_tau(t, q, u0)
        + system.W_g(t, q).toarray() @ la_g
        + system.W_c(t, q).toarray() @ la_c
        + system.W_N(t, q).toarray() @ la_N
    )
    parts = {
        "equilibrium": F,
        "g": system.g(t, q),
        "c": system.c(t, q, u0, la_c),
        "g_S": system.g_S(t, q),
        "signorini": np.minimum(la_N, system.g_N(t, q)),
    }
    return parts


def check_points(system, sol, opts, out, sig, kind, first_is_initial=True, normalises=True):
    """Every returned point against the solver's scaled criterion."""
    nt = len(sol.t)
    z = lambda x, n: np.zeros((nt, n)) if x is None else np.asarray(x)
    q, la_g, la_c, la_N = np.asarray(sol.q), z(sol.la_g, system.nla_g), z(sol.la_c, system.nla_c), z(sol.la_N, system.nla_N)
    C = 50.0
    # tracked joint angles are history dependent: the harness walks the returned points from the start, in order
    # (warm start of a step first, then the step), after putting the tracking back to its initial state
    system.reset()
    for i in range(nt):
        t = float(sol.t[i])
        if i == 0 and first_is_initial:
            parts = residual(system, t, q[i], la_g[i], la_c[i], la_N[i])
            prev = parts
        else:
            j = max(i - 1, 0)
            prev = residual(system, t, q[j], la_g[j], la_c[j], la_N[j])  # warm start of this step
            parts = residual(system, t, q[i], la_g[i], la_c[i], la_N[i])
        vec = np.concatenate([parts[k] for k in parts])
        vec0 = np.concatenate([prev[k] for k in prev])
        n = max(vec.size, 1)
        # the solver's criterion, with a generous floor for the scale of the initial residual
        f0 = np.maximum(np.abs(vec0), float(np.max(np.abs(vec0))) if vec0.size else 0.0)
        scale = opts.newton_atol + f0 * opts.newton_rtol
        err = float(np.linalg.norm(vec / scale) / np.sqrt(n)) if vec.size else 0.0
        if not np.all(np.isfinite(vec)) or err > C:
            worst = max(parts, key=lambda k: float(np.max(np.abs(parts[k]))) if parts[k].size else 0.0)
            cls = {"equilibrium": "not_equilibrium", "g": "constraint_residual", "c": "constraint_residual", "g_S": "constraint_residual", "signorini": "signorini_static"}[worst]
            out["violations"].append(
                violation(
                    cls,
                    f"{sig}/{worst}/{'first' if i == 0 else ('last' if i == nt - 1 else 'inner')}",
                    f"{kind}: returned point {i} (t={t:.6g}) has scaled residual {err:.3e} (solver criterion < 1, bound {C:g}); |{worst}| = {float(np.max(np.abs(parts[worst]))):.3e}",
                )
            )
            return False
        # unit quaternions
        gS = parts["g_S"]
        if normalises and gS.size and np.max(np.abs(gS)) > 1e-9 and i > 0:
            out["violations"].append(violation("constraint_residual", f"{sig}/unit_quaternion", f"{kind}: point {i}: |p|^2-1 = {float(np.max(np.abs(gS))):.3e}"))
            return False
        if system.nla_N and i > 0:
            gN = system.g_N(t, q[i])
            if np.any(la_N[i] > 1e-8) and np.all(np.abs(gN) < 1e-6):
                out["probes"]["signorini_static_closed"] += 1
            elif np.all(gN > 1e-6):
                out["probes"]["signorini_static_open"] += 1
    return True


# ------------------------------------------------------------------ executor
def _solve_newton(system, plan, sim, faults_step=None):
    from cardillo.solver import Newton, SolverOptions

    opts = SolverOptions(newton_atol=plan["tol"], newton_rtol=plan["tol"], newton_max_iter=40)
    sol = Newton(system, n_load_steps=plan["n_load_steps"], verbose=True, options=opts).solve()
    return sol, opts


def rod_frames(rod, q, xis=(0.0, 0.3, 0.7, 1.0)):
    out = []
    for xi in xis:
        qe = q[rod.qDOF][rod.local_qDOF_P((xi,))]
        out.append((rod.r_OP(1.0, qe, (xi,)), rod.A_IB(1.0, qe, (xi,))))
    return out


def execute(plan, out, log):
    from cardillo import System
    from cardillo.solver import SolverOptions, Riks

    kind = plan["kind"]
    faults = []
    if kind == "cantilever_fault":
        faults = [("fsolve", plan["fault_step"], 1)]
    sim = Sim(log, faults=faults)
    sig = kind
    moved_last = 0.0
    with sim.installed():
        try:
            if kind in ("cantilever", "frame", "cantilever_fault"):
                rs = plan["rod"]
                sig = f"{rs['interp']}/{'mixed' if rs['mixed'] else 'db'}/{'constrained' if rs['constraints'] else 'free'}"
                # plain cantilevers are placed at identity or at the random rigid placement (large absolute
                # rotations: nodal quaternions in both hemispheres)
                system, rod = build_cantilever(plan, moved=(kind != "frame" and plan.get("placed", False)))
                sol, opts = _solve_newton(system, plan, sim)
                failed = sim.failed_instances()
                if kind == "cantilever_fault":
                    if sim.fired:
                        out["faults"]["F1_newton_failure"] += 1
                        out["probes"]["fault_fired"] += 1
                        k = plan["fault_step"]
                        warned = [w for w in sim.warnings if not w[2].startswith("fsolve is not converged")]
                        if len(sol.t) > k - 1:
                            out["violations"].append(violation("unconverged_step_returned", sig, f"load step {k - 1} was forced not to converge, yet {len(sol.t)} load steps were returned"))
                            return
                        if not warned:
                            out["violations"].append(violation("early_stop_silent", sig, f"Newton stopped after {len(sol.t)} of {plan['n_load_steps'] + 1} load steps without a warning of its own"))
                            return
                elif failed:
                    raise Discard("organic_nonconvergence")
                if len(sol.t) == 0:
                    out["nontrivial"] = False
                    out["abstract"] = repr((kind, sig, plan["n_load_steps"], "empty"))
                    return
                if not check_points(system, sol, opts, out, sig, "cantilever"):
                    return
                out["probes"]["cantilever_solved"] += 1
                moved_last = float(np.max(np.abs(np.asarray(sol.q)[-1] - system.q0)))
                out["steps"] = len(sol.t)
                if kind == "frame":
                    system2, rod2 = build_cantilever(plan, moved=True)
                    sol2, _ = _solve_newton(system2, plan, sim)
                    if sim.failed_instances():
                        raise Discard("organic_nonconvergence_moved")
                    R, r = rot.quat_to_mat(plan["R"]), np.array(plan["r"])
                    scale = 1 + rs["L"] + float(np.linalg.norm(r))
                    for i in range(len(sol.t)):
                        f0 = rod_frames(rod, np.asarray(sol.q)[i])
                        f1 = rod_frames(rod2, np.asarray(sol2.q)[i])
                        for (p0, A0), (p1, A1) in zip(f0, f1):
                            e = max(float(np.max(np.abs(R @ p0 + r - p1))), float(np.max(np.abs(R @ A0 - A1))))
                            if e > 1e-7 * scale:
                                out["violations"].append(
                                    violation("frame_dependence", sig, f"load step {i}: equilibrium of the rigidly moved problem differs from the moved equilibrium by {e:.3e} (tol {1e-7 * scale:.1e}, tip displacement {moved_last:.2f})")
                                )
                                return
                    out["probes"]["frame_indifference_checked"] += 1
            elif kind == "rigid_pd":
                B = build(plan["scene"], options=SolverOptions(compute_consistent_initial_conditions=False))
                system = B.system
                sol, opts = _solve_newton(system, plan, sim)
                if sim.failed_instances():
                    raise Discard("organic_nonconvergence")
                if not check_points(system, sol, opts, out, "pendulum_with_actuator/" + plan["scene"]["actuators"][0]["type"], "pendulum held by an actuator"):
                    return
                out["probes"]["static_with_feedback_actuator" if plan["scene"]["actuators"][0]["type"] != "motor" else "static_with_motor"] += 1
                moved_last = float(np.max(np.abs(np.asarray(sol.q)[-1] - system.q0)))
                out["steps"] = len(sol.t)
            elif kind == "rigid":
                B = build(plan["scene"], options=SolverOptions(compute_consistent_initial_conditions=False))
                system = B.system
                sol, opts = _solve_newton(system, plan, sim)
                if sim.failed_instances():
                    raise Discard("organic_nonconvergence")
                if not check_points(system, sol, opts, out, "rigid_on_springs", "rigid body on springs"):
                    return
                out["probes"]["rigid_static_solved"] += 1
                if plan.get("moving_initial_state"):
                    out["probes"]["static_with_initial_velocities"] += 1
                moved_last = float(np.max(np.abs(np.asarray(sol.q)[-1] - system.q0)))
                out["steps"] = len(sol.t)
            elif kind == "signorini_linear":
                B = build(build_signorini_linear(plan), options=SolverOptions(compute_consistent_initial_conditions=False))
                system = B.system
                sol, opts = _solve_newton(system, plan, sim)
                if sim.failed_instances():
                    raise Discard("organic_nonconvergence")
                if not check_points(system, sol, opts, out, "linear_columns_on_plane", "bodies on prismatic guides pressed onto a plane"):
                    return
                gN = np.array([system.g_N(float(t_), q_) for t_, q_ in zip(sol.t, sol.q)])
                if np.any(np.diff((gN > 1e-9).astype(int), axis=0) != 0):
                    out["probes"]["contact_closed_inside_a_load_step"] += 1
                moved_last = 1.0
                out["steps"] = len(sol.t)
            elif kind == "signorini":
                B = build(build_signorini(plan), options=SolverOptions(compute_consistent_initial_conditions=False))
                system = B.system
                sol, opts = _solve_newton(system, plan, sim)
                if sim.failed_instances():
                    raise Discard("organic_nonconvergence")
                if not check_points(system, sol, opts, out, "sphere_on_plane", "sphere pressed onto a plane"):
                    return
                moved_last = 1.0
                out["steps"] = len(sol.t)
            else:
                opts = SolverOptions(newton_atol=1e-8, newton_rtol=1e-8)
                if kind == "riks_truss":
                    system = System()
                    tr = plan["truss"]
                    system.add(Truss2D(tr["k"], tr["phi0"], tr["w"]))
                    system.assemble()
                    span = np.array(plan["span"])
                    sig = "riks/truss"
                elif kind == "riks_signorini":
                    B = build(build_signorini(plan), options=SolverOptions(compute_consistent_initial_conditions=False))
                    system = B.system
                    span = np.array([0.0, 1.0])
                    sig = "riks/sphere_on_plane"
                else:
                    system, rod = build_cantilever(plan, moved=False)
                    span = np.array([0.0, 1.0])
                    rs = plan["rod"]
                    sig = f"riks/{rs['interp']}/{'mixed' if rs['mixed'] else 'db'}"
                sol = Riks(system, la_arc_span=span, la_arc0=plan["la_arc0"], iter_goal=3, max_load_steps=200, options=opts).solve()
                if not check_points(system, sol, opts, out, sig, "Riks", first_is_initial=True, normalises=False):
                    return
                out["probes"]["riks_points_checked"] += len(sol.t)
                moved_last = float(np.max(np.abs(np.asarray(sol.q)[-1] - system.q0)))
                out["steps"] = len(sol.t)
        except Discard:
            raise
        except (AssertionError, RuntimeError, ValueError, np.linalg.LinAlgError, FloatingPointError) as e:
            raise Discard(f"solver_raised:{kind}:{type(e).__name__}")
    if kind == "riks_truss" and plan.get("riks_fault") is not None and not out["violations"]:
        riks_fault_run(plan, sim, sol, opts, out, log)
    out["nontrivial"] = out["steps"] >= 2 and moved_last > 1e-6
    out["abstract"] = repr((kind, sig, plan["n_load_steps"], plan.get("fault_step"), plan["tol"], plan.get("placed")))


def riks_fault_run(plan, pilot_sim, pilot_sol, opts, out, log):
    """The same arc-length run with one corrector solve forced not to converge: the solver raises, or whatever it
    returns consists of equilibria and a run that stops early says so."""
    from cardillo import System
    from cardillo.solver import Riks

    insts = [(i[0], i[1], i[2]) for i in pilot_sim.instances if i[0] == "fsolve"]
    if len(insts) < 4:
        return
    p = insts[2 + plan["riks_fault"] % (len(insts) - 2)]
    sim = Sim(log, faults=[p])
    sol = exc = None
    with sim.installed():
        system = System()
        tr = plan["truss"]
        system.add(Truss2D(tr["k"], tr["phi0"], tr["w"]))
        system.assemble()
        try:
            sol = Riks(system, la_arc_span=np.array(plan["span"]), la_arc0=plan["la_arc0"], iter_goal=3, max_load_steps=200, options=opts).solve()
        except (AssertionError, RuntimeError, ValueError, np.linalg.LinAlgError, FloatingPointError) as e:
            exc = e
    if not sim.fired:
        out["probes"]["riks_fault_not_reached"] += 1
        return
    out["faults"]["F1_newton_failure"] += 1
    out["probes"]["riks_fault_fired"] += 1
    if exc is not None:
        out["probes"]["riks_fault_raised"] += 1
        return
    if not check_points(system, sol, opts, out, "riks/truss/after_failed_corrector", "Riks", first_is_initial=True, normalises=False):
        return
    own = [w for w in sim.warnings if not w[2].startswith("fsolve is not converged")]
    if len(sol.t) < len(pilot_sol.t) and not own:
        out["violations"].append(
            violation(
                "early_stop_silent",
                "riks/truss",
                f"corrector solve {p[2]} (step {p[1]}) was forced not to converge: Riks returned {len(sol.t)} points (the fault-free run: {len(pilot_sol.t)}) without raising and without a warning of its own",
            )
        )


def shrink(plan):
    # (tracked joint angles need increments below a quarter turn per load step: the actuator problems keep >= 3 steps)
    if plan["n_load_steps"] > (3 if plan["kind"] == "rigid_pd" else 1) and plan["kind"] != "cantilever_fault":
        yield dict(plan, n_load_steps=plan["n_load_steps"] - 1)
    if "rod" in plan:
        r = plan["rod"]
        if r["nel"] > 1:
            yield dict(plan, rod=dict(r, nel=r["nel"] - 1))
        if r["constraints"]:
            yield dict(plan, rod=dict(r, constraints=None))
        if any(plan.get("moment", [0, 0, 0])):
            yield dict(plan, moment=[0.0, 0.0, 0.0])
