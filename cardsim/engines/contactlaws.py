"""C18 - nonsmooth integrators satisfy the discrete Signorini-Coulomb laws (DESIGN 5.5)."""

import numpy as np

from ..core import violation, Discard
from ..gen_scenes import gen_contact_scene, rotate_contact_scene
from ..scenes import build
from ..seams import Sim
from .. import rot
from ..session import NONSMOOTH, gen_solver, run_solver, solver_options, check_solution_shape, restore_basis

PROPERTY = "C18"
LEVEL = "exploration"
BUDGET = {"quick": 480, "thorough": 12000}
CHUNK = 2
RUN_TIMEOUT_S = 1500
MAX_DISCARD_FRACTION = 0.5
RULE = (
    "seeded sessions: 1..4 spheres (rigid bodies with spin, point masses) over 1..2 fixed planes plus sphere-sphere pairs, "
    "restitution and friction in [0,1] incl. exactly 0 and 1, resting / sliding / flying starts; solver drawn from Moreau, "
    "RATTLE, BackwardEuler, DualStormerVerlet with buggified prox scaling, tolerances, LU reuse, DSV linear solver; 40..200 "
    "steps; a third of the sessions are force-free, frictionless 'free flight' scenes with one common restitution (energy "
    "clause). Per stored step: P_N >= 0, P_N = 0 on open contacts, complementarity with the gap (position level) or the "
    "Newton-restituted gap rate (velocity level, at the recorded midpoint), penetration bound, Coulomb disk, maximal "
    "dissipation when sliding, no kinetic-energy increase. distinct = (solver, per-contact mode strings over "
    "{open, impact, contact-stick, contact-slip}, run-length compressed and capped); non-trivial = at least one closed contact step"
)
RULE += " Ground planes may be moved explicitly in time (shaking / tilting, up to accelerations above g so that resting spheres are thrown off); Moreau sessions may have all masses rescaled by 1e-8..1e3 (all percussion tolerances are relative to the scene's own scale); sphere-plane contacts may have tangential restitution e_F (the slip of the friction clauses is the restituted slip)."
COMPONENTS = {
    "real": ["Moreau", "Rattle", "BackwardEuler", "DualStormerVerlet", "Sphere2Plane", "Sphere2Sphere", "prox functions", "System"],
    "stub": ["tqdm -> SimProgress", "Moreau.step / DSV fixed_point_iteration wrapped only to record the midpoint configuration"],
    "model": ["contact kinematics of the same System evaluated by the harness at stored / recorded states; 'closed' decided by the harness from the gap, never read from the solver's active set"],
}
ASSUMPTIONS = [
    "isotropic Coulomb friction; tangential restitution e_F only on sphere-plane contacts (Moreau, RATTLE, DualStormerVerlet)",
    "energy clause only for scenes whose contacts share one restitution coefficient (Newton's law may increase energy term-wise for different e_i in simultaneous impacts); an impact is the whole episode during which percussions act: the energy after the episode is compared with the energy before it, and step by step only in free flight",
    "sessions in which the solver reports non-convergence are discards",
]
REQUIRED_PROBES = {"quick": ["closed_contact_step", "impact_step", "slip_step", "stick_step", "open_step", "energy_checked_step"]}

# calibrated bounds (see DESIGN 5.5): residual <= C * tolerance-scale
C_PEN = 200.0
C_XI = 500.0
C_CONE = 200.0


def gen(rng, tier, index):
    name = NONSMOOTH[index % len(NONSMOOTH)]
    free = (index // len(NONSMOOTH)) % 3 == 0
    scene = gen_contact_scene(rng, free_flight=free, friction=not free)
    if not scene["bodies"]:
        scene = gen_contact_scene(rng, nspheres=1, free_flight=free, friction=not free)
    dt = float(10 ** rng.uniform(-3.0, -2.0))
    steps = int(rng.integers(40, 200 if tier == "thorough" else 120))
    solver = gen_solver(rng, name, steps, dt, tight=bool(rng.random() < 0.5), contacts=True)
    x = rng.random()
    if not free and x < 0.3:
        # the ground is moved explicitly in time (shaking, optionally tilting): gap rates and slip velocities then
        # have a part that does not come from the bodies' velocities
        ground = scene["contacts"][0]["plane"]
        n0 = rot.quat_to_mat(ground["p"])[:, 2]
        ground["motion"] = {
            "amp": (n0 * float(rng.uniform(0.01, 0.06)) + rng.normal(size=3) * float(rng.choice([0.0, 0.03]))).tolist(),
            "w": float(rng.uniform(3, 25)),  # up to amp * w^2 > g: resting spheres are thrown off the floor
            "axis": rng.normal(size=3).tolist(),
            "alpha": float(rng.choice([0.0, rng.uniform(0.02, 0.15)])),
            "from_rest": bool(rng.random() < 0.8),  # mostly starting from rest (resting spheres stay consistent)
        }
        if rng.random() < 0.5:
            # peak floor acceleration between 0.5 g and 3 g: resting spheres are thrown off and land again
            a_max = float(rng.uniform(0.5, 3.0)) * 9.81
            w = float(rng.uniform(max(5.0, np.sqrt(a_max / 0.1)), 30.0))
            ground["motion"]["w"] = w
            ground["motion"]["amp"] = (n0 * a_max / w**2).tolist()
    if not free and name != "BackwardEuler" and rng.random() < 0.3:
        # tangential restitution on sphere-plane contacts (the slip of the discrete friction law is then the restituted one)
        for co in scene["contacts"]:
            if co["type"] == "s2p" and co["mu"] > 0 and rng.random() < 0.7:
                co["eF"] = float(rng.choice([0.2, 0.5, 1.0]))
    if not free and x < 0.3:
        pass
    elif name == "Moreau" and x < 0.55:
        # the unit system is the user's: the same scene in milligrams or tonnes (Moreau measures convergence in
        # velocities, which do not change; percussions scale with the masses)
        sc = float(10.0 ** int(rng.choice([-8, -7, -6, -4, 3])))
        for b in scene["bodies"]:
            b["m"] = b["m"] * sc
            if b["kind"] == "rigid":
                b["theta"] = (np.array(b["theta"], dtype=float) * sc).tolist()
        scene["mass_scale"] = sc
    if rng.random() < 0.3:
        scene["t0"] = float(np.round(rng.uniform(-3.0, 8.0), 3))  # the time origin is arbitrary
    if rng.random() < 0.4:
        # the whole scene rigidly moved: gravity and plane normals then point in arbitrary directions
        rotate_contact_scene(scene, rot.rand_quat(rng), rng.uniform(-1, 1, 3))
    return {"scene": scene, "solver": solver, "free": free}


def kinetic(B, q, u):
    T = 0.0
    for i, b in enumerate(B.scene["bodies"]):
        ub = u[B.bodies[i].uDOF]
        T += 0.5 * b["m"] * ub[:3] @ ub[:3]
        if b["kind"] == "rigid":
            th = np.array(b["theta"], dtype=float)
            Th = np.diag(th) if th.ndim == 1 else th
            T += 0.5 * ub[3:] @ Th @ ub[3:]
    return T


def monitor(R, out, log, plan):
    B, spec, sol = R.B, R.spec, R.sol
    s = B.system
    name = spec["name"]
    opt = solver_options(spec)
    t, q, u = np.asarray(sol.t), np.asarray(sol.q), np.asarray(sol.u)
    PN, PF = np.asarray(sol.P_N), np.asarray(sol.P_F)
    nt = len(t)
    dt = spec["dt"]
    contacts = B.contacts
    mu = np.array([co["mu"] for co in B.scene["contacts"]])
    eN = s.e_N
    eF = s.e_F
    ftol = opt.fixed_point_atol + opt.fixed_point_rtol * (1 + float(np.max(np.abs(u))))
    ntol = opt.newton_atol + opt.newton_rtol
    pos_level = name in ("Rattle", "BackwardEuler")
    Pscale = float(np.max(np.abs(PN))) if PN.size else 0.0
    mscale = max(b["m"] for b in B.scene["bodies"])
    # gap tolerance: position error that the fixed-point / Newton criteria allow
    tol_g = C_PEN * max(ftol * dt, ntol) * (1 + float(np.max(np.abs(q))))
    # (the constant assumes the contraction of the solvers' own prox parameter; a user who scales it down by
    # prox_scaling < 1 slows the iteration accordingly: the same increment criterion then leaves a larger residual)
    r_user = float(spec["options"].get("prox_scaling", 1.0))
    ftol_v = ftol / min(1.0, r_user) ** 2  # velocity-level residual the increment criterion can leave behind
    tol_xi = C_XI * ftol_v
    # all percussion tolerances are relative to the scene's own mass / percussion scale (the unit system is the user's)
    tol_P = 1e-10 * (mscale + Pscale)
    tol_cone = C_CONE * ftol * mscale + 1e-9 * (mscale + Pscale)
    modes = [[] for _ in contacts]
    worst = {"pen": 0.0, "xi": 0.0, "cone": 0.0, "slipdir": 0.0, "dT": 0.0}

    def bad(cls, sig, detail):
        out["violations"].append(violation(cls, sig, detail))

    T_prev = kinetic(B, q[0], u[0])
    episode = {"T0": None, "start": None, "kinds": set()}
    for k in range(1, nt):
        restore_basis(R, k)
        P = PN[k]
        if pos_level:
            tc, qc = t[k], q[k]
        else:
            tc, qc = R.mid[k]
        g = s.g_N(tc, qc)
        # -------- normal percussions
        if np.min(P) < -tol_P:
            i = int(np.argmin(P))
            bad("PN_negative", f"{name}/{type(contacts[i]).__name__}", f"step {k}: P_N[{i}]={P[i]:.3e} < 0")
            return
        open_ = g > tol_g
        # position-level schemes iterate on the percussions themselves: an open contact's percussion is zero up to the
        # fixed-point tolerance (relative to the percussion scale), not up to round-off
        tol_P_open = max(tol_P, 10 * ftol * (mscale + Pscale)) if pos_level else tol_P
        if np.any(P[open_] > tol_P_open):
            i = int(np.argmax(np.where(open_, P, 0)))
            bad("PN_open_contact", f"{name}/{type(contacts[i]).__name__}", f"step {k}: contact {i} is open (gap {g[i]:.3e} > {tol_g:.1e}) but P_N={P[i]:.3e}")
            return
        if pos_level:
            gk = g
            worst["pen"] = max(worst["pen"], float(np.max(-gk)))
            if np.min(gk) < -tol_g:
                i = int(np.argmin(gk))
                bad("penetration", f"{name}/{type(contacts[i]).__name__}", f"step {k}: contact {i} penetrates by {-gk[i]:.3e} (bound {tol_g:.1e})")
                return
        # restituted gap rate
        if pos_level:
            xiN = s.g_N_dot(t[k], q[k], u[k]) + eN * s.g_N_dot(t[k - 1], q[k - 1], u[k - 1]) if name == "Rattle" else None
        else:
            xiN = s.g_N_dot(tc, qc, u[k]) + eN * s.g_N_dot(tc, qc, u[k - 1])
        active = P > max(tol_P, 1e-6 * Pscale)
        if xiN is not None:
            vscale = 1 + float(np.max(np.abs(u[k])))
            if np.any(active):
                m = float(np.max(np.abs(xiN[active])))
                worst["xi"] = max(worst["xi"], m / vscale)
                if m > tol_xi * vscale:
                    i = int(np.argmax(np.where(active, np.abs(xiN), 0)))
                    # several closed frictional contacts on the body of contact i (wedge): named in the signature
                    def bodies_of(j):
                        co = B.scene["contacts"][j]
                        return {co["body"]} if co["type"] == "s2p" else {co["a"], co["b"]}

                    mates = [j for j in range(len(contacts)) if active[j] and mu[j] > 0 and bodies_of(j) & bodies_of(i)]
                    wedge = "/several_frictional_contacts_on_one_body" if (len(mates) >= 2 and mu[i] > 0) else ""
                    bad(
                        "signorini_complementarity",
                        f"{name}/velocity/{type(contacts[i]).__name__}{wedge}",
                        f"step {k}: contact {i} carries P_N={P[i]:.3e} but its restituted gap rate g_N_dot+ + e_N g_N_dot- = {xiN[i]:.3e} (e_N={eN[i]:.2f}, bound {tol_xi * vscale:.1e})",
                    )
                    return
            if not pos_level:
                # closed according to the scheme's own documented rule, evaluated by the harness on the recorded
                # midpoint: Moreau treats |g| <= 1e-8 as closed (well inside: 1e-9), DSV g <= 0
                clearly_closed = (g <= 1e-9) if name == "Moreau" else (g <= 0.0)
                if np.any(clearly_closed & (xiN < -tol_xi * vscale)):
                    i = int(np.argmax(clearly_closed & (xiN < -tol_xi * vscale)))
                    bad("signorini_complementarity", f"{name}/approach/{type(contacts[i]).__name__}", f"step {k}: closed contact {i} (gap {g[i]:.3e}) keeps approaching: restituted gap rate {xiN[i]:.3e}")
                    return
        if name == "BackwardEuler" and np.any(active & (np.abs(g) > tol_g)):
            i = int(np.argmax(active & (np.abs(g) > tol_g)))
            bad("signorini_complementarity", f"{name}/position/{type(contacts[i]).__name__}", f"step {k}: P_N={P[i]:.3e} with gap {g[i]:.3e}")
            return
        # -------- friction: the slip of the discrete law is the Newton-restituted one, gamma_F+ + e_F gamma_F-
        # (BackwardEuler has no tangential restitution; e_F is only generated for the other three)
        if pos_level:
            gF = s.gamma_F(t[k], q[k], u[k])
            if name == "Rattle" and np.any(eF != 0):
                gF = gF + eF * s.gamma_F(t[k - 1], q[k - 1], u[k - 1])
        else:
            gF = s.gamma_F(tc, qc, u[k])
            if np.any(eF != 0):
                gF = gF + eF * s.gamma_F(tc, qc, u[k - 1])
        for i, c in enumerate(contacts):
            closed_i = bool(active[i])
            if not hasattr(c, "la_FDOF") or mu[i] == 0:
                slip = None
            else:
                Pf = PF[k][c.la_FDOF]
                lim = mu[i] * P[i]
                nPf = float(np.linalg.norm(Pf))
                worst["cone"] = max(worst["cone"], nPf - lim)
                if nPf > lim + tol_cone:
                    bad("cone", f"{name}/{type(c).__name__}", f"step {k}: |P_F|={nPf:.3e} exceeds mu*P_N={lim:.3e} (mu={mu[i]:.2f})")
                    return
                xiF = gF[c.la_FDOF]
                nx = float(np.linalg.norm(xiF))
                slip = nx > 1e3 * ftol_v * (1 + float(np.max(np.abs(u[k]))))
                if closed_i and slip and lim > 10 * tol_cone:
                    err = float(np.linalg.norm(Pf + lim * xiF / nx))
                    worst["slipdir"] = max(worst["slipdir"], err / lim)
                    if err > 0.02 * lim + tol_cone:
                        bad("slip_direction", f"{name}/{type(c).__name__}", f"step {k}: sliding contact {i} (|xi_F|={nx:.3e}): P_F={Pf.tolist()} is not -mu*P_N*xi_F/|xi_F|={(-lim * xiF / nx).tolist()}")
                        return
            # mode string
            if not closed_i:
                m = "o"
                out["probes"]["open_step"] += 1
            else:
                out["probes"]["closed_contact_step"] += 1
                pre = s.g_N_dot(t[k - 1], q[k - 1], u[k - 1])[i]
                if pre < -1e-3:
                    m = "i"
                    out["probes"]["impact_step"] += 1
                elif slip:
                    m = "s"
                    out["probes"]["slip_step"] += 1
                else:
                    m = "c"
                    if slip is not None:
                        out["probes"]["stick_step"] += 1
            if not modes[i] or modes[i][-1] != m:
                modes[i].append(m)
        # -------- energy
        T = kinetic(B, q[k], u[k])
        if plan["free"] and B.scene.get("common_eN") is not None:
            # "impacts never increase the kinetic energy": an impact is the whole episode during which percussions act
            # (position-level schemes may need two steps to turn an oblique sphere-sphere contact around; the energy
            # may move between those steps).  Compared: the energy when the episode is over vs. the energy before it
            # began; between episodes (free flight, no forces) the energy must stay constant step by step.
            out["probes"]["energy_checked_step"] += 1
            etol = 100 * ftol * mscale * (1 + float(np.max(np.abs(u[k]))))
            any_active = bool(np.any(active))
            if any_active and episode["T0"] is None:
                episode.update(T0=T_prev, start=k, kinds=set())
            if any_active:
                episode["kinds"] |= {type(contacts[i]).__name__ for i in range(len(contacts)) if active[i]}
            if episode["T0"] is None:
                dT = T - T_prev
                worst["dT"] = max(worst["dT"], dT / (1e-12 + T_prev))
                if dT > 1e-9 * T_prev + etol:
                    bad("energy_increase", f"{name}/none", f"step {k}: kinetic energy rises from {T_prev:.6e} to {T:.6e} (+{dT / T_prev:.2e}) in free flight of a force-free scene")
                    return
            elif not any_active or k == nt - 1:
                dT = T - episode["T0"]
                worst["dT"] = max(worst["dT"], dT / (1e-12 + episode["T0"]))
                if dT > 1e-9 * episode["T0"] + etol:
                    kinds = sorted(episode["kinds"]) or ["none"]
                    bad(
                        "energy_increase",
                        f"{name}/{'+'.join(kinds)}",
                        f"steps {episode['start']}..{k}: kinetic energy after the impact is {T:.6e}, before it {episode['T0']:.6e} (+{dT / episode['T0']:.2e}) in a force-free frictionless scene with e_N={B.scene['common_eN']}",
                    )
                    return
                out["probes"]["impact_episode_energy_checked"] += 1
                if episode["start"] is not None and k - episode["start"] >= 2:
                    out["probes"]["impact_episode_longer_than_one_step"] += 1
                if not any_active:
                    episode.update(T0=None, start=None, kinds=set())
        T_prev = T
    log.ev("worst", name, worst["pen"], worst["xi"], worst["cone"], worst["slipdir"], worst["dT"])
    out["probes"][f"ran_{name}"] += 1
    if any((co.get("plane") or {}).get("motion") for co in B.scene["contacts"]):
        out["probes"]["moving_plane_session"] += 1
    if B.scene.get("mass_scale"):
        out["probes"]["rescaled_masses_session"] += 1
    if np.any(eF != 0):
        out["probes"]["tangential_restitution_session"] += 1
    if B.scene.get("moved"):
        out["probes"]["rigidly_moved_scene_session"] += 1
    out["worst"] = worst
    return ["".join(m)[:12] for m in modes]


def execute(plan, out, log):
    spec = plan["solver"]
    sim = Sim(log)
    with sim.installed():
        try:
            B = build(plan["scene"])
        except (AssertionError, RuntimeError, ValueError, np.linalg.LinAlgError) as e:
            raise Discard(f"assemble:{type(e).__name__}")
        R = run_solver(B, spec, sim)
    if R.exc is not None:
        raise Discard(f"solver_raised:{spec['name']}:{type(R.exc).__name__}")
    failed = sim.failed_instances()
    if failed:
        first = min(i[6] for i in failed)
        if any(w[0] > first for w in sim.warnings):
            raise Discard(f"organic_nonconvergence:{spec['name']}")
        # a loop was left although its last verdict was 'not converged', and the solver said nothing: it hands these
        # steps out as converged ones, so the laws are checked on them like on any other step
        out["probes"]["loop_left_unconverged_without_notice"] += 1
    sol = R.sol
    if len(sol.t) < spec["steps"] + 1:
        raise Discard(f"truncated:{spec['name']}")
    if not (np.all(np.isfinite(sol.q)) and np.all(np.isfinite(sol.u))):
        raise Discard(f"nonfinite:{spec['name']}")
    out["steps"] = len(sol.t) - 1
    out["sim_time"] = float(sol.t[-1] - sol.t[0])
    if not check_solution_shape(sol, B.system, spec["name"], out["violations"]):
        return
    modes = monitor(R, out, log, plan)
    if modes is None:
        return
    out["nontrivial"] = any(set(m) - {"o"} for m in modes)
    out["abstract"] = repr((spec["name"], sorted(modes)))


def shrink(plan):
    sc = plan["scene"]
    so = plan["solver"]
    if so["steps"] > 3:
        yield dict(plan, solver=dict(so, steps=max(3, so["steps"] // 2)))
        yield dict(plan, solver=dict(so, steps=so["steps"] - 1))
    for i in range(len(sc["contacts"]) - 1, -1, -1):
        new = dict(sc, contacts=sc["contacts"][:i] + sc["contacts"][i + 1 :])
        yield dict(plan, scene=new)
    nb = len(sc["bodies"])
    if nb > 1:
        for i in range(nb - 1, -1, -1):
            cs = []
            for c in sc["contacts"]:
                if c["type"] == "s2p":
                    if c["body"] == i:
                        continue
                    cs.append(dict(c, body=c["body"] - (c["body"] > i)))
                else:
                    if i in (c["a"], c["b"]):
                        continue
                    cs.append(dict(c, a=c["a"] - (c["a"] > i), b=c["b"] - (c["b"] > i)))
            yield dict(plan, scene=dict(sc, bodies=sc["bodies"][:i] + sc["bodies"][i + 1 :], contacts=cs))
    if so["options"]:
        yield dict(plan, solver=dict(so, options={}))
