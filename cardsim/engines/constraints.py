"""C17 - integrators keep bilateral constraints and unit quaternions at every step (DESIGN 5.4)."""

import numpy as np

from ..core import violation, Discard, ddmin_list
from ..gen_scenes import gen_chain_scene, gen_rod_scene, gen_contact_scene, add_knife_edge
from ..scenes import build
from .. import rot
from ..seams import Sim
from ..session import DYNAMIC, gen_solver, project_velocities, run_solver, solver_options, check_solution_shape, require_regular

PROPERTY = "C17"
LEVEL = "exploration"
BUDGET = {"quick": 420, "thorough": 24000}
CHUNK = 2
RUN_TIMEOUT_S = 1500
MAX_DISCARD_FRACTION = 0.6
RULE = (
    "seeded sessions: random open/closed chains of 1..4 rigid bodies / point masses with all joint types, moving frames, "
    "springs / dampers / Maxwell elements / actuators, consistent projected initial velocities; solver drawn from RATTLE, "
    "BackwardEuler, Moreau, DualStormerVerlet, ScipyDAE, ScipyIVP with buggified legal knobs (tolerances over 4 decades, "
    "prox scaling, LU reuse, numerical Jacobians, DSV linear solver / acceleration, SciPy method); 10..120 steps, dt over two "
    "decades; per stored step the solver-specific invariant of DESIGN 5.4 with a bound reconstructed from the solver's own "
    "stopping criterion. distinct = (solver, knob signature, joint-type multiset, has loop, has moving frame); "
    "non-trivial = at least one bilateral constraint and >= 10 stored steps"
)
RULE += " Joint parents may be the second partner; drives may start from rest; a fifth of the sessions use very fine steps (1e-5..3e-4); Cosserat-rod sessions (all formulations, clamped / hinged to origin / moving frame / carrying a body) monitor the rod's internal constraints and nodal quaternions; sessions may carry a user-defined nonholonomic constraint (gamma rows of all solvers); sessions with forced fixed-point / Newton failures and continue_with_unconverged check the quaternion clause on the steps stored after a failure (sphere-plane and sphere-sphere contacts)."
RULE += " A third of the sessions of the nonsmooth steppers carry an unrelated ball lying on a floor (closed contact): contact iterations and bilateral constraints meet in the same steps."
COMPONENTS = {
    "real": ["all six dynamic solvers", "System", "all joints / force elements", "fsolve", "scipy / scipy_dae back ends"],
    "stub": ["tqdm -> SimProgress (step seam)", "stdout/warnings captured"],
    "model": ["constraint functions of the same System evaluated by the harness at stored / recorded states"],
}
ASSUMPTIONS = [
    "sessions in which the solver itself reports non-convergence (organic) or the scene is singular are discards, counted",
    "bounds are c*(atol + rtol*scale)*sqrt(n) with c = 50 (calibrated; see DESIGN 5.4)",
]


ROD_SOLVERS = ["Rattle", "BackwardEuler", "Moreau", "DualStormerVerlet", "ScipyDAE", "BackwardEuler"]


def gen_rod(rng, tier, index):
    """Dynamic Cosserat-rod sessions: the rod's internal constraints, the joints at its ends and its nodal
    quaternions are what the monitors look at."""
    name = ROD_SOLVERS[index % len(ROD_SOLVERS)]
    scene = gen_rod_scene(rng)
    if name == "ScipyDAE":
        scene["rods"][0]["spec"]["constraints"] = None  # the DAE wrapper refuses rods with internal constraints
    explicit = name in ("Moreau", "DualStormerVerlet")
    dt = float(10 ** (rng.uniform(-3.6, -3.1) if explicit else rng.uniform(-2.7, -2.0)))
    steps = int(rng.integers(10, 60 if tier == "thorough" else 30))
    solver = gen_solver(rng, name, steps, dt, contacts=False)
    solver["options"].pop("numerical_jacobian_method", None)
    if name == "DualStormerVerlet":
        # MINRES stops on its own (hidden) tolerance relative to the right-hand side, which is large for a stiff rod: the
        # position bound reconstructed from the fixed-point tolerance does not apply to it
        solver["kwargs"]["linear_solver"] = "LU"
    return {"scene": scene, "solver": solver, "kind": "rod"}


FAULT_SITES = {"Moreau": ["moreau.fp"], "Rattle": ["rattle.fp1", "rattle.fp2", "fsolve"], "BackwardEuler": ["be.fp", "fsolve"]}


def gen_faulted(rng, tier, index):
    """Sessions that go on after a failed iteration (continue_with_unconverged, forced fixed-point / Newton
    failures at a few steps): the steps stored then are stored steps like any other for the quaternion clause."""
    name = ["Moreau", "Rattle", "BackwardEuler"][index % 3]
    scene = gen_contact_scene(rng, nspheres=int(rng.integers(1, 3)), allow_s2s=True)
    for b in scene["bodies"]:
        if b["kind"] == "rigid":
            b["w"] = (np.array(b["w"]) + rng.normal(size=3) * 3).tolist()
    steps = int(rng.integers(10, 40))
    dt = float(10 ** rng.uniform(-2.7, -2.0))
    solver = gen_solver(rng, name, steps, dt, tight=False, buggify=False, contacts=True)
    solver["options"].update(continue_with_unconverged=True, fixed_point_max_iter=30)
    sites = FAULT_SITES[name]
    faults = [[str(sites[int(rng.integers(len(sites)))]), int(rng.integers(1, steps + 1)), 1] for _ in range(int(rng.integers(2, 6)))]
    return {"scene": scene, "solver": solver, "kind": "faulted", "faults": faults}


def gen(rng, tier, index):
    if (index // len(DYNAMIC)) % 5 == 4:
        return gen_rod(rng, tier, index)
    if (index // len(DYNAMIC)) % 5 == 2 and index % 2 == 0:
        return gen_faulted(rng, tier, index // 2)
    name = DYNAMIC[index % len(DYNAMIC)]
    scene = gen_chain_scene(rng, rigid_only=False)
    if not scene["joints"]:
        scene = gen_chain_scene(rng, nbodies=2)
    dt = float(10 ** rng.uniform(-3.3, -2.0))
    steps = int(rng.integers(10, 120 if tier == "thorough" else 60))
    if name in ("ScipyIVP", "ScipyDAE"):
        dt = float(10 ** rng.uniform(-2.5, -1.5))
        steps = int(rng.integers(10, 40))
    elif rng.random() < 0.2:
        dt = float(10 ** rng.uniform(-5.0, -3.5))  # very fine steps: almost nothing changes from one step to the next
        steps = int(rng.integers(10, 40))
    solver = gen_solver(rng, name, steps, dt, contacts=False)
    if name in ("Rattle", "BackwardEuler") and rng.random() < 0.2:
        # legal knob: a Newton budget so small that some step organically fails; whatever the solver then
        # returns must still consist of steps that satisfy the constraints
        solver["options"]["newton_max_iter"] = int(rng.integers(1, 4))
    add_knife_edge(rng, scene, prob=0.35)
    if rng.random() < 0.35:
        scene["t0"] = float(np.round(rng.uniform(-3.0, 8.0), 3))  # the time origin is arbitrary (continuation runs, shifted drives)
    if name in ("Moreau", "Rattle", "BackwardEuler", "DualStormerVerlet") and (index // len(DYNAMIC)) % 3 == 1 and not scene.get("rods"):
        add_bystander_contact(scene, index)
    return {"scene": scene, "solver": solver}


def add_bystander_contact(scene, index):
    """An unrelated ball lying on a floor far away from the mechanism (pressed on it by gravity, or just touching when
    there is none): the nonsmooth steppers then run their contact iterations in the same steps in which the bilateral
    constraints of the mechanism are imposed."""
    g = np.array(scene.get("gravity") if scene.get("gravity") is not None else [0.0, 0.0, 0.0], dtype=float)
    n = -g / np.linalg.norm(g) if np.linalg.norm(g) > 0 else np.array([0.0, 0.0, 1.0])
    t1 = np.cross(n, [1.0, 0.0, 0.0] if abs(n[0]) < 0.9 else [0.0, 1.0, 0.0])
    t1 /= np.linalg.norm(t1)
    A = np.column_stack([t1, np.cross(n, t1), n])
    P = np.array([7.0, -6.0, 5.0])
    rad = 0.2
    scene["bodies"].append({"kind": "point", "m": 1.0, "r": (P + rad * n).tolist(), "v": [0.0, 0.0, 0.0]})
    scene.setdefault("contacts", []).append({"type": "s2p", "plane": {"r": P.tolist(), "p": rot.mat_to_quat(A).tolist()}, "body": len(scene["bodies"]) - 1, "radius": rad, "mu": [0.0, 0.3][index % 2], "eN": 0.0, "eF": 0.0})
    scene["bystander_contact"] = True


def _sig(plan):
    s = plan["solver"]
    o = s["options"]
    knobs = (
        s["name"],
        o.get("newton_atol", 1e-6),
        o.get("reuse_lu_decomposition", True),
        o.get("numerical_jacobian_method", False),
        tuple(sorted(s["kwargs"].items())),
    )
    sc = plan["scene"]
    jt = tuple(sorted(j["type"] for j in sc["joints"]))
    loop = any(j.get("loop") for j in sc["joints"])
    moving = any((f.get("motion") is not None) for f in sc["frames"])
    nonhol = bool(sc.get("nonholonomic"))
    rods = tuple((r["spec"]["interp"], r["spec"]["mixed"], tuple(r["spec"]["constraints"] or ()), r["spec"]["degree"]) for r in sc.get("rods", []))
    return repr((knobs, jt, loop, moving, rods, nonhol))


def quat_norms(B, q):
    worst = 0.0
    for i, b in enumerate(B.scene["bodies"]):
        if b["kind"] == "rigid":
            p = q[B.bodies[i].qDOF][3:]
            worst = max(worst, abs(np.linalg.norm(p) - 1.0))
    for rod in getattr(B, "rods", []):
        qr = q[rod.qDOF]
        for n in range(rod.nnodes_p):
            worst = max(worst, abs(np.linalg.norm(qr[rod.nodalDOF_p[n]]) - 1.0))
    return worst


def monitor(R, out, log, quat_only=False, failed_steps=()):
    B, spec, sol = R.B, R.spec, R.sol
    s = B.system
    name = spec["name"]
    opt = solver_options(spec)
    t, q, u = np.asarray(sol.t), np.asarray(sol.q), np.asarray(sol.u)
    nt = len(t)
    ncon = s.nla_g + s.nla_gamma
    nx = s.nq + s.nu + s.nla_c + s.nla_g + s.nla_gamma
    umax = float(np.max(np.abs(u))) if u.size else 0.0
    C = 50.0
    newton_bound = C * (opt.newton_atol + opt.newton_rtol * (1.0 + umax)) * np.sqrt(max(nx, 1))
    fp_bound = C * (opt.fixed_point_atol + opt.fixed_point_rtol * (1.0 + umax)) * np.sqrt(max(nx, 1))
    worst = {"g": 0.0, "g_dot": 0.0, "gamma": 0.0, "quat": 0.0, "mid": 0.0}

    def bad(cls, sig, detail):
        out["violations"].append(violation(cls, sig, detail))

    def moved_by_callback(k, g, bound, level="g_pre"):
        """Signature suffix: the offending block is a Cosserat rod's own internal constraints, the state the solver had
        converged to satisfied them within the bound, and the step callback (nodal quaternion normalisation) moved the
        stored state off them."""
        pre = getattr(R, level, {}).get(k)
        if not pre:
            return ""
        for rod in getattr(B, "rods", []):
            if hasattr(rod, "la_gDOF") and len(rod.la_gDOF) and float(np.max(np.abs(g[rod.la_gDOF]))) > bound and pre.get(id(rod), np.inf) <= bound:
                others = [float(np.max(np.abs(g[c.la_gDOF]))) for c in s.contributions if hasattr(c, "la_gDOF") and c is not rod and len(c.la_gDOF)]
                if not others or max(others) <= bound:
                    interp = B.scene["rods"][B.rods.index(rod)]["spec"]["interp"]
                    return f"/CosseratRod-{interp}/internal_constraints_moved_by_step_callback"
        return ""

    gs, gds = [], []
    for k in range(nt):
        g = s.g(t[k], q[k])
        gd = s.g_dot(t[k], q[k], u[k])
        ga = s.gamma(t[k], q[k], u[k])
        ng = float(np.max(np.abs(g))) if g.size else 0.0
        ngd = float(np.max(np.abs(gd))) if gd.size else 0.0
        nga = float(np.max(np.abs(ga))) if ga.size else 0.0
        gs.append(ng)
        gds.append(ngd)
        worst["g"], worst["g_dot"], worst["gamma"] = max(worst["g"], ng), max(worst["g_dot"], ngd), max(worst["gamma"], nga)
        if k == 0:
            continue
        if quat_only:
            qn = quat_norms(B, q[k])
            worst["quat"] = max(worst["quat"], qn)
            if qn > 1e-12:
                bad("quat_norm", name + "/after_failed_iteration", f"step {k}: a stored orientation quaternion has |norm-1|={qn:.3e} (run continued after failed iterations at steps {sorted(failed_steps)})")
                return
            continue
        if name in ("Rattle", "BackwardEuler"):
            if ng > newton_bound:
                bad("pos_constraint", name + moved_by_callback(k, g, newton_bound), f"step {k}: |g|={ng:.3e} exceeds {newton_bound:.3e} (newton tol {opt.newton_atol:g})")
                return
        if name == "DualStormerVerlet":
            if ng > fp_bound:
                bad("pos_constraint", name + moved_by_callback(k, g, fp_bound), f"step {k}: |g|={ng:.3e} exceeds {fp_bound:.3e} (fixed-point tol {opt.fixed_point_atol:g}; accelerated={spec['kwargs'].get('accelerated')})")
                return
        if name == "Rattle":
            vb = 1e-7 * (1 + umax)
            if ngd > vb or nga > max(vb, newton_bound):
                bad("vel_constraint", name + (moved_by_callback(k, gd, vb, "gd_pre") if ngd > vb else ""), f"step {k}: |g_dot|={ngd:.3e}, |gamma|={nga:.3e} exceed {vb:.3e}")
                return
        if name == "Moreau":
            tm, qm = R.mid[k]
            gdm = s.g_dot(tm, qm, u[k])
            gam = s.gamma(tm, qm, u[k])
            m = max(float(np.max(np.abs(gdm))) if gdm.size else 0.0, float(np.max(np.abs(gam))) if gam.size else 0.0)
            worst["mid"] = max(worst["mid"], m)
            vb = 1e-7 * (1 + umax)
            if m > vb:
                bad("midpoint_vel", name, f"step {k}: |g_dot(t_mid, q_mid, u_k)|={m:.3e} exceeds {vb:.3e}")
                return
        if name in ("Rattle", "BackwardEuler", "Moreau", "DualStormerVerlet"):
            qn = quat_norms(B, q[k])
            worst["quat"] = max(worst["quat"], qn)
            if qn > 1e-12:
                bad("quat_norm", name, f"step {k}: a stored orientation quaternion has |norm-1|={qn:.3e}")
                return
    if name == "ScipyDAE":
        rtol, atol = spec["kwargs"]["rtol"], spec["kwargs"]["atol"]
        scale = 1.0 + max(umax, float(np.max(np.abs(q))))
        bound = 100 * (atol + rtol * scale)
        # the velocity-level constraint is one of the algebraic equations of the stabilised index-2 system: its residual
        # is governed by the integrator's Newton tolerance (observed <= 0.05 (atol + rtol scale)); bound 10 (atol + rtol scale)
        if max(gs[1:], default=0) > bound or max(gds[1:], default=0) > bound * 0.1:
            bad("pos_constraint" if max(gs[1:], default=0) > bound else "vel_constraint", name, f"max |g|={max(gs):.3e} (bound {bound:.3e}), max |g_dot|={max(gds):.3e} (bound {0.1 * bound:.3e}) (rtol={rtol:g})")
            return
        third = max(nt // 3, 1)
        first, last = max(gs[:third] + gds[:third]), max(gs[-third:] + gds[-third:])
        if last > 10 * first + bound:
            bad("dae_drift", name, f"constraint residual grows from {first:.3e} (first third) to {last:.3e} (last third), bound {bound:.3e}")
            return
    if name == "ScipyIVP":
        ud, lag, laga, lac = sol.u_dot, sol.la_g, sol.la_gamma, sol.la_c
        s.reset()  # tracked joint angles are history dependent: follow the stored trajectory from its start
        for k in range(nt):
            M = s.M(t[k], q[k]).toarray()
            res = (
                M @ ud[k]
                - s.h(t[k], q[k], u[k])
                - s.W_tau(t[k], q[k]).toarray() @ s.la_tau(t[k], q[k], u[k])
                - s.W_c(t[k], q[k]).toarray() @ lac[k]
                - s.W_g(t[k], q[k]).toarray() @ lag[k]
                - s.W_gamma(t[k], q[k]).toarray() @ laga[k]
            )
            gdd = s.g_ddot(t[k], q[k], u[k], ud[k])
            gad = s.gamma_dot(t[k], q[k], u[k], ud[k])
            scale = 1 + float(np.max(np.abs(s.h(t[k], q[k], u[k])))) + float(np.max(np.abs(ud[k])))
            m = max([float(np.max(np.abs(x))) for x in (res, gdd, gad) if x.size] + [0.0])
            if m > 1e-8 * scale * 10:
                bad("ivp_eom", name, f"output time {k}: equations of motion / acceleration constraints residual {m:.3e} (scale {scale:.2e})")
                return
            lc = s.la_c(t[k], q[k], u[k])
            if lc.size and np.max(np.abs(lc - lac[k])) > 1e-9 * (1 + np.max(np.abs(lc))):
                bad("ivp_eom", name + ".la_c", f"output time {k}: reported la_c differs from the compliance law by {np.max(np.abs(lc - lac[k])):.3e}")
                return
    log.ev("worst", name, worst["g"], worst["g_dot"], worst["mid"], worst["quat"])
    out["probes"][f"ran_{name}"] += 1
    if B.scene.get("bystander_contact"):
        out["probes"]["bystander_contact_session"] += 1
    if getattr(B, "nonholonomic", None):
        out["probes"]["nonholonomic_session"] += 1
    if B.scene.get("t0", 0.0) != 0.0:
        out["probes"]["nonzero_initial_time_session"] += 1
    if getattr(B, "rods", None):
        out["probes"]["rod_session"] += 1
    return worst


def execute(plan, out, log):
    scene = project_velocities(plan["scene"])
    spec = plan["solver"]
    faulted = plan.get("kind") == "faulted"
    sim = Sim(log, faults=[tuple(f) for f in plan.get("faults", [])])
    with sim.installed():
        try:
            B = build(scene)
        except (AssertionError, RuntimeError, ValueError, np.linalg.LinAlgError) as e:
            raise Discard(f"assemble:{type(e).__name__}")
        require_regular(B)
        R = run_solver(B, spec, sim)
    if R.exc is not None:
        raise Discard(f"solver_raised:{spec['name']}:{type(R.exc).__name__}")
    sol = R.sol
    if faulted:
        for f in sim.fired:
            out["faults"]["F1_newton_failure" if f[0] == "fsolve" else "F2_fixed_point_failure"] += 1
        fsteps = {i[1] for i in sim.failed_instances() if i[1] >= 1}
        if not fsteps or len(sol.t) < 2 or not (np.all(np.isfinite(sol.q)) and np.all(np.isfinite(sol.u))):
            raise Discard(f"no_fault_fired:{spec['name']}" if not fsteps else f"nonfinite:{spec['name']}")
        out["steps"] = len(sol.t) - 1
        out["sim_time"] = float(sol.t[-1] - sol.t[0])
        if len(sol.t) > min(fsteps):
            out["probes"]["continued_after_failed_iteration"] += 1
        check_solution_shape(sol, B.system, spec["name"], out["violations"])
        if not out["violations"]:
            monitor(R, out, log, quat_only=True, failed_steps=fsteps)
        out["nontrivial"] = len(sol.t) > min(fsteps) and any(b["kind"] == "rigid" for b in scene["bodies"])
        out["abstract"] = repr(("faulted", spec["name"], tuple(sorted({f[0] for f in sim.fired})), len(scene["bodies"])))
        return
    failed = [f for f in sim.failed_instances() if f[1] >= 1]
    if failed:
        kf = min(f[1] for f in failed)
        if len(sol.t) > kf:
            # the solver kept a step although an iteration of that step failed: it is a stored step like any other
            out["probes"]["stored_step_after_failed_iteration"] += 1
        else:
            out["probes"]["truncated_before_failed_step"] += 1
        if len(sol.t) < 2:
            raise Discard(f"organic_nonconvergence_at_first_step:{spec['name']}")
    elif len(sol.t) < spec["steps"] + 1:
        if len(sol.t) < 2:
            raise Discard(f"truncated:{spec['name']}")
        out["probes"]["truncated_by_back_end"] += 1
    if not (np.all(np.isfinite(sol.q)) and np.all(np.isfinite(sol.u))):
        raise Discard(f"nonfinite:{spec['name']}")
    umax_run = float(np.max(np.abs(sol.u))) if np.asarray(sol.u).size else 0.0
    if umax_run > 1e6 and umax_run > 1e4 * (1.0 + float(np.max(np.abs(np.asarray(sol.u)[0]))) if np.asarray(sol.u).size else 0.0):
        # a step beyond the stability limit of an explicit scheme (Moreau / DualStormerVerlet on a stiff rod): the run blows
        # up (velocities 1e15 ... 1e200, then underflow); this says nothing about constraint handling
        raise Discard(f"unstable_run:{spec['name']}")
    out["steps"] = len(sol.t) - 1
    out["sim_time"] = float(sol.t[-1] - sol.t[0])
    check_solution_shape(sol, B.system, spec["name"], out["violations"])
    if out["violations"]:
        return
    import warnings

    with warnings.catch_warnings():
        warnings.simplefilter("ignore")  # the harness's own evaluations; the run's warnings were captured by the simulator
        monitor(R, out, log)
    out["nontrivial"] = (B.system.nla_g + B.system.nla_gamma) > 0 and len(sol.t) >= 10
    out["abstract"] = _sig(plan)


def shrink(plan):
    sc = plan["scene"]
    so = plan["solver"]
    if so["steps"] > 3:
        yield dict(plan, solver=dict(so, steps=max(3, so["steps"] // 2)))
    if plan.get("faults") and len(plan["faults"]) > 1:
        for i in range(len(plan["faults"])):
            yield dict(plan, faults=plan["faults"][:i] + plan["faults"][i + 1 :])
    for key in ("forces", "actuators", "laws"):
        for i in range(len(sc.get(key, [])) - 1, -1, -1):
            new = dict(sc)
            new[key] = sc[key][:i] + sc[key][i + 1 :]
            yield dict(plan, scene=new)
    # drop the last body with everything that refers to it
    nb = len(sc["bodies"])
    if nb > 1:
        i = nb - 1
        ref = ["body", i]
        new = dict(sc)
        new["bodies"] = sc["bodies"][:-1]
        new["joints"] = [j for j in sc["joints"] if j["a"] != ref and j["b"] != ref]
        keep_t = [k for k, tp in enumerate(sc["tpis"]) if tp["a"] != ref and tp["b"] != ref]
        new["tpis"] = [sc["tpis"][k] for k in keep_t]
        jmap = {old: n for n, old in enumerate([k for k, j in enumerate(sc["joints"]) if j["a"] != ref and j["b"] != ref])}
        laws = []
        for lw in sc["laws"]:
            kind, idx = lw["on"]
            if kind == "tpi" and idx in keep_t:
                laws.append(dict(lw, on=["tpi", keep_t.index(idx)]))
            elif kind == "joint" and idx in jmap:
                laws.append(dict(lw, on=["joint", jmap[idx]]))
        new["laws"] = laws
        new["actuators"] = [dict(a, joint=jmap[a["joint"]]) for a in sc["actuators"] if a["joint"] in jmap]
        new["forces"] = [f for f in sc["forces"] if f["body"] != i]
        new["contacts"] = [c for c in sc.get("contacts", []) if c.get("body") != i and c.get("a") != i and c.get("b") != i]
        yield dict(plan, scene=new)
    if so["options"]:
        for k in list(so["options"]):
            o = dict(so["options"])
            del o[k]
            yield dict(plan, solver=dict(so, options=o))
    if sc.get("gravity") is not None:
        yield dict(plan, scene=dict(sc, gravity=None))
    if sc.get("nonholonomic"):
        yield dict(plan, scene={k: v for k, v in sc.items() if k != "nonholonomic"})
