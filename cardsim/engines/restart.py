"""C24 - restarting a simulation from an intermediate state reproduces the run (DESIGN 5.10).

Fault F3 (crash / restart): the run stops after step k; only the durable
triple (t_k, q_k, u_k) survives (optionally through a save/load round trip
on disk); a deep copy of the system is re-initialised with
``set_new_initial_state`` and the run continues.
"""

import os
import shutil
import tempfile

import numpy as np

from ..core import violation, Discard
from ..gen_scenes import gen_chain_scene, gen_contact_scene, gen_rod_scene, add_knife_edge
from ..scenes import build, FrameMotion
from ..seams import Sim
from ..session import gen_solver, project_velocities, run_solver, require_regular, body_states, make_options
from .. import rot

PROPERTY = "C24"
LEVEL = "fault_enumeration"
BUDGET = {"quick": 96, "thorough": 600}
CHUNK = 1
RUN_TIMEOUT_S = 1500
MAX_DISCARD_FRACTION = 0.6
SOLVERS = ["Rattle", "Moreau", "BackwardEuler", "DualStormerVerlet", "ScipyIVP"]
RULE = (
    "seeded sessions (chains with revolute / spherical / other joints, springs on revolute joints turning several times, "
    "Maxwell elements, compliance-form springs, sphere-plane and sphere-sphere contacts; RATTLE, Moreau, BackwardEuler, "
    "DualStormerVerlet, ScipyIVP; 16..48 steps, tight tolerances). Crash points: quick = 3 seeded split steps per session, "
    "thorough = every split step 1..N-1 (enumerated). Variants: system copy taken before the run / after the first leg / after the whole uninterrupted run, durable "
    "state handed over in memory / through save_solution -> load_solution on disk. Oracles: (1) second leg equals the "
    "uninterrupted run on the overlapping grid; (2) model identity: g, g_dot, W_g, h, la_c, g_N, E_pot of the re-initialised "
    "copy equal those of a system the harness builds itself from the body-fixed plan at the same state, at 3 probe states; "
    "(3) re-initialising does not raise. distinct = (solver, variant, joint types, force-law kinds, contact kinds, split "
    "position bucket); non-trivial = at least one split executed with >= 1 bilateral constraint, force law or contact"
)
RULE += " Before a rod session the process deep-copies a rod of another interpolation made with the same factory options."
RULE += " In a third of the sessions the working copy is first re-initialised with a wrong row (the next instant's state) and then again, for the same time, with the right one."
RULE += " Third copy variant: the copy is taken from the system that has just finished the whole uninterrupted run. Time origins are arbitrary (t0 != 0, splits exactly at t = 0.0 with dyadic steps). Sessions with a Cosserat rod (its coordinates, internal constraints and end joints are re-initialised) and with a user-defined nonholonomic constraint."
COMPONENTS = {
    "real": ["System.deepcopy / set_new_initial_state / assemble", "all five solvers", "joints, force laws, contacts", "save_solution / load_solution (real files)"],
    "stub": ["tqdm -> SimProgress"],
    "model": ["uninterrupted reference run", "harness-built system at the restart state (body-fixed joint placement, tracked revolute angles computed by the harness)"],
}
ASSUMPTIONS = [
    "states of Moreau / BackwardEuler / DualStormerVerlet violate the velocity-level constraints by O(dt) by design; their restarts pass compute_consistent_initial_conditions=False (rejecting them is correct per C16)",
    "trajectory tolerance 1e-6*(1+scale) with solver tolerances <= 1e-9; model-identity tolerance 1e-8 + 10*|g(q_k)|",
]
REQUIRED_PROBES = {"quick": ["split_executed", "restart_via_file", "copy_after_first_leg", "copy_after_full_run", "revolute_present", "contact_present"]}


def gen(rng, tier, index):
    name = SOLVERS[index % len(SOLVERS)]
    kind = ["chain", "revolute_spring", "contact", "chain", "rod"][(index // len(SOLVERS)) % 5]
    if name == "ScipyIVP" and kind == "contact":
        kind = "chain"
    if kind == "rod":
        # a Cosserat rod between a support and (optionally) a rigid body: its own coordinates, internal constraints
        # and the joints at its ends are re-initialised too
        name = ["Rattle", "BackwardEuler", "DualStormerVerlet", "Moreau", "Rattle"][index % len(SOLVERS)]
        scene = gen_rod_scene(rng)
    elif kind == "contact":
        scene = gen_contact_scene(rng, nspheres=int(rng.integers(1, 3)), allow_s2s=True)
    elif kind == "revolute_spring":
        scene = gen_chain_scene(rng, nbodies=int(rng.integers(1, 3)), joints=["revolute"], rigid_only=True, allow_loop=False, allow_frames=False, speed=3.0)
        while not scene["joints"]:
            scene = gen_chain_scene(rng, nbodies=int(rng.integers(1, 3)), joints=["revolute"], rigid_only=True, allow_loop=False, allow_frames=False, speed=3.0)
        # make sure a spring sits on a revolute joint that turns
        if not any(l["on"][0] == "joint" for l in scene["laws"]):
            scene["laws"].append({"type": "spring", "on": ["joint", 0], "k": float(rng.uniform(0.5, 5)), "d": 0.1, "l_ref": 0.0, "compliance": bool(rng.random() < 0.3)})
        for b in scene["bodies"]:
            b["w"] = (np.array(b["w"]) * 4).tolist()
    else:
        scene = gen_chain_scene(rng, nbodies=int(rng.integers(1, 4)), allow_loop=False)
    n = int(rng.integers(16, 48))
    dt = float(10 ** rng.uniform(-2.7, -2.0))
    if kind == "rod":
        n = int(rng.integers(10, 30))
        dt = float(10 ** (rng.uniform(-3.6, -3.1) if name in ("Moreau", "DualStormerVerlet") else rng.uniform(-2.7, -2.0)))
    if kind == "revolute_spring":
        # long enough for the joint to travel more than half a turn between an early split and the end
        n = int(rng.integers(30, 64))
        dt = float(10 ** rng.uniform(-2.3, -2.0))
    solver = gen_solver(rng, name, n, dt, tight=True, buggify=False, contacts=(kind == "contact"))
    if name == "ScipyIVP":
        solver["kwargs"] = {"method": str(rng.choice(["RK45", "DOP853", "Radau"])), "rtol": 1e-10, "atol": 1e-12}
    splits = sorted({int(x) for x in rng.integers(1, n, size=3)})
    # the time origin is arbitrary: runs that do not start at zero, some of them crossing t = 0 exactly at a split
    x = rng.random()
    if x < 0.2:
        dtd = float(2.0 ** -int(rng.integers(6, 9)))  # dyadic step: t0 + k*dt is exact
        solver["dt"] = dtd
        m = int(rng.integers(1, n))
        scene["t0"] = -m * dtd
        splits = sorted({m, *splits[:2]})
    elif x < 0.4:
        scene["t0"] = float(rng.uniform(-1.0, 2.0))
    if kind == "revolute_spring":
        splits = sorted({int(rng.integers(1, max(n // 4, 2))), *splits[1:]})
    if kind in ("chain", "contact") and rng.random() < 0.3:
        # released from rest, the same `at_rest` array object handed to every body (and the library's default
        # initial state for Maxwell elements): a legal way to write a model
        for b in scene["bodies"]:
            b["v"] = [0.0, 0.0, 0.0]
            if b["kind"] == "rigid":
                b["w"] = [0.0, 0.0, 0.0]
        scene["share_initial_arrays"] = True
        if scene.get("gravity") is None:
            scene["gravity"] = [0.0, 0.0, -9.81]
    nh = kind == "chain" and name != "ScipyIVP"
    plan_nh = add_knife_edge(rng, dict(scene), prob=0.3) if nh else scene  # (drawn last: earlier draws are unchanged)
    if nh and plan_nh.get("nonholonomic"):
        scene["nonholonomic"] = plan_nh["nonholonomic"]
    return {
        "scene": scene,
        "kind": kind,
        "solver": solver,
        "splits": splits if tier == "quick" else list(range(1, n)),
        "copy": str(rng.choice(["before", "after", "after_full"])),
        "durable": str(rng.choice(["memory", "file"])),
        "probe_seed": int(rng.integers(2**31)),
        "reinit_twice": bool((index // len(SOLVERS)) % 3 == 1),
    }


# ------------------------------------------------------------------ harness-side kinematics
def _pose(B, ref, t, q):
    if ref == "origin":
        return np.zeros(3), np.eye(3)
    kind, i = ref[0], ref[1]
    if kind == "frame":
        fm = B.frame_motions[i]
        return fm.r(t), fm.A(t)
    if kind == "rod":
        rod, xi = B.rods[i], float(ref[2])
        qe = q[rod.qDOF][rod.local_qDOF_P(xi)]
        return rod.r_OP(t, qe, xi), rod.A_IB(t, qe, xi)
    qb = q[B.bodies[i].qDOF]
    if B.scene["bodies"][i]["kind"] == "rigid":
        return qb[:3], rot.quat_to_mat(qb[3:])
    return qb[:3], np.eye(3)


def tracked_angles(B, sol, k, base=None):
    """Accumulated revolute angles at stored step k, computed by the harness
    from the trajectory (unwrapped principal angles).  The joint frames are
    the body-fixed ones of the *plan* (its initial configuration); ``base`` is
    the tracked angle at the first state of ``sol`` (default: angle0, for runs
    that start at the plan's own initial configuration)."""
    from ..scenes import body_pose

    res = {}
    sc = B.scene
    t = np.asarray(sol.t)
    q = np.asarray(sol.q)

    def plan_A(ref_):
        if ref_ == "origin":
            return np.eye(3)
        kind, i = ref_[0], ref_[1]
        if kind == "frame":
            return B.frame_motions[i].A(sc.get("t0", 0.0))
        if kind == "rod":
            rod, xi = B.rods[i], float(ref_[2])
            return rod.A_IB(0.0, rod.Q[rod.local_qDOF_P(xi)], xi)
        return body_pose(sc["bodies"][i])[1]

    for j, jt in enumerate(sc["joints"]):
        if jt["type"] != "revolute":
            continue
        AJ = rot.quat_to_mat(jt["pJ"]) if jt.get("pJ") is not None else np.eye(3)
        ja, jb = (jt["b"], jt["a"]) if jt.get("swap") else (jt["a"], jt["b"])  # (first, second) partner of the joint
        K1, K2 = plan_A(ja).T @ AJ, plan_A(jb).T @ AJ
        c = jt["axis"]
        a, b = np.roll([0, 1, 2], -c)[1:]
        acc, prev = 0.0, None
        for i in range(0, k + 1):
            _, A1 = _pose(B, ja, t[i], q[i])
            _, A2 = _pose(B, jb, t[i], q[i])
            J1, J2 = A1 @ K1, A2 @ K2
            phi = np.arctan2(J2[:, a] @ J1[:, b], J2[:, a] @ J1[:, a])
            if prev is not None:
                d = phi - prev
                acc += (d + np.pi) % (2 * np.pi) - np.pi
            prev = phi
        start = jt.get("angle0", 0.0) if base is None else base[j]
        res[j] = start + acc
    return res


MODEL_FUNS = ["g", "g_dot", "W_g", "h", "la_c", "la_tau", "g_N", "E_pot", "gamma_F_norm"]


def eval_model(B, t, q, u):
    """Model functions in a form that does not depend on how a joint's free
    directions are parametrised: per-joint norms of g and g_dot and the
    projector onto the span of the constraint force directions (a revolute
    joint re-defined at a rotated state has the same constraint manifold but
    rotated orientation-constraint components)."""
    s = B.system
    s.reset()
    g, gd = s.g(t, q), s.g_dot(t, q, u)
    W = s.W_g(t, q).toarray()
    blocks = [c.la_gDOF for c in s.contributions if hasattr(c, "la_gDOF")]
    if W.shape[1]:
        U, sv, _ = np.linalg.svd(W, full_matrices=False)
        r = int(np.sum(sv > 1e-9 * max(sv[0], 1.0)))
        proj = U[:, :r] @ U[:, :r].T
    else:
        proj = np.zeros((s.nu, s.nu))
    out = {
        "g": np.array([np.linalg.norm(g[b]) for b in blocks]),
        "g_dot": np.array([np.linalg.norm(gd[b]) for b in blocks]),
        "W_g": proj,
        "la_c": s.la_c(t, q, u),
        "g_N": s.g_N(t, q),
        "E_pot": np.array([s.E_pot(t, q)]),
    }
    s.reset()
    out["h"] = s.h(t, q, u)
    s.reset()
    out["la_tau"] = s.W_tau(t, q).toarray() @ s.la_tau(t, q, u)
    gF = s.gamma_F(t, q, u)
    norms = []
    for c in B.contacts:
        if hasattr(c, "la_FDOF"):
            norms.append(np.linalg.norm(gF[c.la_FDOF]))
    out["gamma_F_norm"] = np.array(norms)
    return out


def culprit(B, fun):
    """Contribution class names that feed the system function ``fun``."""
    s = B.system
    fam = {"g": "g", "g_dot": "g", "W_g": "g", "la_c": "c", "la_tau": "la_tau", "g_N": "g_N", "gamma_F_norm": "gamma_F", "h": "h", "E_pot": "E_pot"}[fun]
    names = sorted({type(c).__name__ for c in s.contributions if hasattr(c, fam) and callable(getattr(c, fam)) and type(c).__name__ not in ("RigidBody", "PointMass", "Force")})
    return "+".join(names) or "none"


# ------------------------------------------------------------------ executor
def _run(B, spec, sim, steps, t1=None):
    sp = dict(spec, steps=steps)
    return run_solver(B, sp, sim, record=False)


def execute(plan, out, log):
    from cardillo.solver import SolverOptions, load_solution

    spec = plan["solver"]
    name = spec["name"]
    N = spec["steps"]
    scene = project_velocities(plan["scene"])
    needs_relaxed = name in ("Moreau", "BackwardEuler", "DualStormerVerlet")
    sim = Sim(log)
    tmpdir = None
    kinds = set()
    with sim.installed():
        for rd in scene.get("rods", []):
            # this process has copied another rod model before: same factory options, another interpolation
            import copy as _copy
            from ..rods import build_rod, INTERPOLATIONS

            sp = rd["spec"]
            others = [x for x in INTERPOLATIONS if x != sp["interp"] and (x != "SE3" or sp["degree"] == 1)]
            decoy = build_rod(dict(sp, interp=others[sp["nel"] % len(others)], nel=1), name="decoy")
            _copy.deepcopy(decoy)
            out["probes"]["other_rod_model_copied_before"] += 1
        try:
            B = build(scene)
        except (AssertionError, RuntimeError, ValueError, np.linalg.LinAlgError) as e:
            raise Discard(f"assemble:{type(e).__name__}")
        require_regular(B)
        pristine = B.system.deepcopy() if plan["copy"] == "before" else None
        R = _run(B, spec, sim, N)
        if R.exc is not None or sim.failed_instances() or len(R.sol.t) < N + 1:
            raise Discard(f"reference_run_failed:{name}")
        ref = R.sol
        if not (np.all(np.isfinite(ref.q)) and np.all(np.isfinite(ref.u))):
            raise Discard("nonfinite")
        if float(np.max(np.abs(ref.u))) > 1e3 * (1.0 + float(np.max(np.abs(ref.u[0])))) and float(np.max(np.abs(ref.u))) > 1e4:
            # the step size is beyond the stability limit of the (explicit) scheme for this scene - e.g. Moreau on a stiff
            # rod: the reference run itself blows up and amplifies round-off without bound; nothing can be compared
            raise Discard(f"unstable_reference_run:{name}")
        scale = 1 + float(np.max(np.abs(ref.q))) + float(np.max(np.abs(ref.u)))
        out["steps"] += N
        if B.scene["joints"]:
            out["probes"]["revolute_present" if any(j["type"] == "revolute" for j in B.scene["joints"]) else "other_joint_present"] += 1
        if B.contacts:
            out["probes"]["contact_present"] += 1
        if getattr(B, "rods", None):
            out["probes"]["rod_present"] += 1
        if getattr(B, "nonholonomic", None):
            out["probes"]["nonholonomic_present"] += 1
        if B.scene.get("share_initial_arrays") and len({id(b.u0) for b in B.bodies}) < len(B.bodies):
            out["probes"]["initial_arrays_shared"] += 1
        try:
            for k in plan["splits"]:
                if k < 1 or k >= N:
                    continue
                # ---------------- first leg
                if plan["copy"] == "after":
                    B1 = build(scene)
                    R1 = _run(B1, spec, sim, k)
                    if R1.exc is not None or len(R1.sol.t) < k + 1:
                        raise Discard(f"first_leg_failed:{name}")
                    sol1 = R1.sol
                    copy_sys = B1.system.deepcopy()
                    out["probes"]["copy_after_first_leg"] += 1
                    out["steps"] += k
                elif plan["copy"] == "after_full":
                    # the copy is taken from the system that has just finished the whole run: whatever it last
                    # evaluated belongs to the final time, not to the restart state
                    sol1 = ref
                    copy_sys = B.system.deepcopy()
                    out["probes"]["copy_after_full_run"] += 1
                else:
                    sol1 = ref
                    copy_sys = pristine.deepcopy()
                tk, qk, uk = float(sol1.t[k]), np.array(sol1.q[k]), np.array(sol1.u[k])
                if plan["copy"] == "after":
                    # fixed-step solvers are exact prefixes; the adaptive back end clips its last step at the leg's end
                    exact = name != "ScipyIVP"
                    dev = max(float(np.max(np.abs(qk - ref.q[k]))), float(np.max(np.abs(uk - ref.u[k]))))
                    if (exact and dev != 0.0) or dev > 1e-8 * scale:
                        raise RuntimeError(f"first leg is not a prefix of the reference run (deviation {dev:.2e}): the simulation is not deterministic")
                # ---------------- durable state
                if plan["durable"] == "file":
                    if tmpdir is None:
                        tmpdir = tempfile.mkdtemp(prefix="cardsim-c24-")
                    path = os.path.join(tmpdir, f"leg1_{k}.pkl")
                    try:
                        sol1.save(path)
                        back = load_solution(path)
                    except Exception as e:
                        # the save / load contract is C20's subject (checked there on the same kinds of systems)
                        raise Discard(f"save_load_raised:{type(e).__name__}")
                    tk, qk, uk = float(back.t[k]), np.array(back.q[k]), np.array(back.u[k])
                    out["probes"]["restart_via_file"] += 1
                out["faults"]["F3_crash_restart"] += 1
                log.ev("crash", k, tk, qk, uk)
                # ---------------- re-initialise the copy
                kw = {"options": SolverOptions(compute_consistent_initial_conditions=False)} if needs_relaxed else {}
                classes = "+".join(sorted({type(c).__name__ for c in copy_sys.contributions if type(c).__name__ not in ("Frame", "Force")}))
                rejected = None
                if plan.get("reinit_twice") and len(sol1.t) > k + 1:
                    # the user first picks the wrong row of the solution (the next instant's state, declared at t_k), notices
                    # and re-initialises the same working copy again for the same time with the right one
                    try:
                        copy_sys.set_new_initial_state(np.array(sol1.q[k + 1]), np.array(sol1.u[k + 1]), t0=tk, **kw)
                        out["probes"]["reinitialised_twice_for_the_same_time"] += 1
                    except Exception:
                        out["probes"]["first_reinitialisation_rejected"] += 1
                try:
                    copy_sys.set_new_initial_state(qk, uk, t0=tk, **kw)
                except AssertionError as e:
                    rejected = e
                except Exception as e:
                    out["violations"].append(violation("reassemble_crash", classes, f"split {k}: set_new_initial_state raised {type(e).__name__}: {e}"))
                    return
                if rejected is not None and B.contacts and not kw and ("g_N" in str(rejected) or "consistent initial conditions does not converge" in str(rejected)):
                    # RATTLE keeps a resting contact closed on position level while its gap rate decays geometrically
                    # (g_N_dot+ = -e_N g_N_dot-): such a state is an impact configuration for the initial-condition
                    # check and is rightly rejected (C16); it says nothing about the model -> restart relaxed
                    if True:
                        try:
                            copy_sys.set_new_initial_state(qk, uk, t0=tk, options=SolverOptions(compute_consistent_initial_conditions=False))
                            out["probes"]["restart_relaxed_contact_tolerance"] += 1
                            rejected = None
                        except AssertionError as e2:
                            rejected = e2
                if rejected is not None:
                    gk = B.system.g(tk, qk)
                    out["violations"].append(
                        violation(
                            "restart_rejected",
                            f"{name}/{culprit(B, 'g')}",
                            f"split {k}: set_new_initial_state rejected the state reached by the run itself: {rejected} (|g(q_k)| of the original model = {float(np.max(np.abs(gk))) if gk.size else 0.0:.2e})",
                        )
                    )
                    return
                # tracking state exactly as re-initialisation left it (the probes below disturb it)
                tracker = [(c, c.n_full_rotations, c.previous_quadrant) for c in copy_sys.contributions if hasattr(c, "n_full_rotations")]
                # angle each tracked joint of the copy reports at the restart state as re-initialisation left it
                a_copy = {}
                for c, nfr, pq in tracker:
                    a_copy[c.name] = float(c.l(tk, qk[c.qDOF]))
                    c.n_full_rotations, c.previous_quadrant = nfr, pq
                a_reset = {}
                for c, nfr, pq in tracker:
                    c.reset()
                    a_reset[c.name] = float(c.l(tk, qk[c.qDOF]))
                    c.n_full_rotations, c.previous_quadrant = nfr, pq
                # ---------------- oracle 2: model identity
                st = body_states(B, tk, qk, uk)
                st["angle0"] = tracked_angles(B, ref, k)
                for jj, ang in st["angle0"].items():
                    nmj = B.joints[jj].name
                    if nmj in a_copy and abs(a_copy[nmj] - ang) > 1e-7 and abs(a_copy[nmj] - a_reset[nmj]) > 1e-9:
                        out["violations"].append(
                            violation(
                                "model_changed",
                                "Revolute/stale_tracking/angle",
                                f"split {k} (t={tk:.4f}): re-initialised revolute joint {jj} reports angle {a_copy[nmj]:.6f} at the restart state; accumulated angle of the run {ang:.6f}, a freshly reset joint {a_reset[nmj]:.6f}: the copy kept tracking state that does not belong to its new initial state",
                            )
                        )
                        return
                Bh = build(scene, state=st, options=SolverOptions(compute_consistent_initial_conditions=False))

                class _C:
                    pass

                Bc = _C()
                Bc.system = copy_sys
                name_to = {c.name: c for c in copy_sys.contributions}
                Bc.contacts = [name_to[c.name] for c in B.contacts]
                gk = B.system.g(tk, qk)
                tol_m = 1e-8 * scale + 10 * (float(np.max(np.abs(gk))) if gk.size else 0.0)
                # probe states lie on the constraint manifold: states of the reference run itself
                # (off the manifold two equivalent joint definitions legitimately differ)
                for p, j in enumerate(sorted({k, max(k - 3, 0), min(k + 5, N), N})):
                    tp, qp, up = float(ref.t[j]), np.array(ref.q[j]), np.array(ref.u[j])
                    A = eval_model(Bc, tp, qp, up)
                    Hm = eval_model(Bh, tp, qp, up)
                    rev_law = any(l["on"][0] == "joint" for l in B.scene["laws"]) or bool(B.scene["actuators"])
                    gd_ref = B.system.g_dot(tp, qp, up)
                    vres = float(np.max(np.abs(gd_ref))) if gd_ref.size else 0.0
                    for f in MODEL_FUNS:
                        if f in ("h", "la_c", "la_tau", "E_pot") and rev_law and j != k:
                            continue  # tracked angles are history dependent: only the restart state itself is comparable
                        a, h = np.asarray(A[f]), np.asarray(Hm[f])
                        if a.shape != h.shape:
                            out["violations"].append(violation("model_changed", f"{culprit(B, f)}/{f}", f"split {k}: {f} of the re-initialised copy has shape {a.shape}, the model at that state {h.shape}"))
                            return
                        d = float(np.max(np.abs(a - h))) if a.size else 0.0
                        tol_f = tol_m * (10 if f in ("W_g", "h", "la_tau", "E_pot", "g_dot") else 1)
                        if f == "g_dot":
                            # equivalent joint definitions differ at first order in the velocity-constraint residual
                            tol_f += 10 * vres
                        if d > tol_f:
                            sig = f"{culprit(B, f)}/{f}"
                            if f in ("h", "la_c", "la_tau", "E_pot") and rev_law:
                                # is the difference explained by lost full turns of a tracked revolute angle?
                                # The open finding is exactly: the copy reports what a joint whose tracking was
                                # reset reports (angle modulo 2 pi).  Any other angle is a different defect.
                                turns, other = [], []
                                for jj, ang in st["angle0"].items():
                                    jc = name_to[B.joints[jj].name]
                                    copy_sys.reset()
                                    lc = float(jc.l(tk, qk[jc.qDOF]))
                                    n2pi = (ang - lc) / (2 * np.pi)
                                    if abs(n2pi - np.round(n2pi)) < 1e-6 and np.round(n2pi) != 0:
                                        turns.append((jj, int(np.round(n2pi))))
                                    if abs(a_copy[jc.name] - lc) > 1e-9 and abs(a_copy[jc.name] - ang) > 1e-7:
                                        other.append((jj, a_copy[jc.name], lc, ang))
                                if other:
                                    out["violations"].append(
                                        violation(
                                            "model_changed",
                                            f"Revolute/stale_tracking/{f}",
                                            f"split {k} (t={tk:.4f}): after re-initialisation revolute joint(s) report an angle that is neither the accumulated one nor that of a freshly reset joint: {[(jj, f'reported {a:.6f}', f'reset joint {l:.6f}', f'accumulated {g:.6f}') for jj, a, l, g in other]}; {f} differs by {d:.3e}",
                                        )
                                    )
                                    return
                                if turns:
                                    out["violations"].append(
                                        violation(
                                            "model_changed",
                                            f"Revolute/turns/{f}",
                                            f"split {k} (t={tk:.4f}): after re-initialisation revolute joint(s) {turns} (joint, lost full turns) report the angle modulo 2 pi only; {f} differs by {d:.3e}",
                                        )
                                    )
                                    return
                            out["violations"].append(
                                violation(
                                    "model_changed",
                                    sig,
                                    f"split {k} (t={tk:.4f}): {f} of the re-initialised copy differs from the same model built at that state by {d:.3e} (probe state = step {j} of the run, tol {tol_f:.1e})",
                                )
                            )
                            return
                # the probes above queried history-dependent joint angles at other states: put the
                # copy back into the tracking state that re-initialisation left it in
                for c, nfr, pq in tracker:
                    c.n_full_rotations, c.previous_quadrant = nfr, pq
                # ---------------- second leg (oracle 1)
                class _B:
                    pass

                B2 = _B()
                B2.system, B2.scene = copy_sys, B.scene
                B2.bodies = [name_to[b.name] for b in B.bodies]
                B2.contacts = Bc.contacts
                B2.joints = [name_to[j.name] for j in B.joints]
                B2.laws = [name_to[l.name] for l in B.laws]
                n_failed_before = len(sim.failed_instances())
                R2 = _run(B2, spec, sim, N - k)
                out["steps"] += N - k
                if len(sim.failed_instances()) > n_failed_before:
                    # the solver itself reported non-convergence in the second leg (relaxed restarts start
                    # from zero accelerations / multipliers): not silent, and not a statement about the model
                    out["probes"]["second_leg_nonconvergence"] += 1
                    continue
                if R2.exc is not None:
                    out["violations"].append(violation("restart_diverges", f"{name}/raised", f"split {k}: the continued run raised {type(R2.exc).__name__}: {R2.exc}"))
                    return
                s2 = R2.sol
                m = min(len(s2.t), N - k + 1)
                if m < N - k + 1:
                    out["violations"].append(violation("restart_diverges", f"{name}/truncated", f"split {k}: the continued run returned {len(s2.t)} instants instead of {N - k + 1}"))
                    return
                dq = float(np.max(np.abs(np.asarray(s2.q)[:m] - np.asarray(ref.q)[k : k + m])))
                du = float(np.max(np.abs(np.asarray(s2.u)[:m] - np.asarray(ref.u)[k : k + m])))
                dtm = float(np.max(np.abs(np.asarray(s2.t)[:m] - np.asarray(ref.t)[k : k + m])))
                log.ev("leg2", k, dq, du)
                out["probes"]["split_executed"] += 1
                tol = 1e-6 * scale
                mismatch = dtm > 1e-9 or dq > tol or du > 100 * tol
                if B.contacts and dtm <= 1e-9:
                    # Nonsmooth runs depend discontinuously on round-off at contact events (an activation one step
                    # earlier or later; the uninterrupted run carries warm starts the restart cannot have), so the
                    # comparison with the uninterrupted run is ill-posed there.  Sound proxy: the same solver on a
                    # system the harness builds itself at the restart state - both are cold starts from one state.
                    if mismatch:
                        out["probes"]["contact_run_differs_from_uninterrupted"] += 1
                    tw = _C()
                    tw.system, tw.contacts = Bh.system, Bh.contacts
                    Rt = _run(tw, spec, sim, N - k)
                    out["steps"] += N - k
                    mismatch = False
                    if Rt.exc is None and len(Rt.sol.t) == len(s2.t):
                        dq = float(np.max(np.abs(np.asarray(s2.q)[:m] - np.asarray(Rt.sol.q)[:m])))
                        du = float(np.max(np.abs(np.asarray(s2.u)[:m] - np.asarray(Rt.sol.u)[:m])))
                        out["probes"]["contact_twin_compared"] += 1
                        mismatch = dq > tol or du > 100 * tol
                if mismatch:
                    if rev_law:
                        # a tracked revolute angle that leaves the range a freshly reset joint can represent
                        # (relative rotation in (-pi/2, 3pi/2)) during the second leg is the open turn-count finding
                        lost = []
                        for jj in st["angle0"]:
                            jc = name_to[B.joints[jj].name]
                            if abs(a_copy[jc.name] - a_reset[jc.name]) > 1e-9:
                                continue  # not the open finding: the copy did not start from a reset tracking state
                            a0 = B.scene["joints"][jj].get("angle0", 0.0)
                            rel = [tracked_angles(B, ref, i)[jj] - a0 for i in range(k, N + 1)]
                            if min(rel) < -0.5 * np.pi + 0.1 or max(rel) > 1.5 * np.pi - 0.1:
                                lost.append(jj)
                        if lost:
                            out["violations"].append(
                                violation(
                                    "model_changed",
                                    "Revolute/turns/restart_diverges",
                                    f"split {k}: the continued run diverges (|dq|={dq:.3e}) and the tracked angle of revolute joint(s) {lost} leaves the range a re-initialised joint can represent during the second leg",
                                )
                            )
                            return
                    out["violations"].append(
                        violation(
                            "restart_diverges",
                            f"{name}/{culprit(B, 'h')}|{culprit(B, 'g')}|{culprit(B, 'g_N')}",
                            f"split {k}: continued run differs from {'a cold start of the same model built by the harness at the restart state' if B.contacts else 'the uninterrupted run'} by |dq|={dq:.3e}, |du|={du:.3e}, |dt|={dtm:.1e} (tol {tol:.1e}) over {m - 1} steps",
                        )
                    )
                    return
                kinds.add("early" if k < N / 3 else ("late" if k > 2 * N / 3 else "mid"))
        finally:
            if tmpdir:
                shutil.rmtree(tmpdir, ignore_errors=True)
    sc = B.scene
    out["sim_time"] = float(ref.t[-1] - ref.t[0])
    out["nontrivial"] = bool(out["probes"]["split_executed"]) and bool(sc["joints"] or sc["laws"] or sc["contacts"])
    out["abstract"] = repr(
        (
            name,
            plan["copy"],
            plan["durable"],
            tuple(sorted(j["type"] for j in sc["joints"])),
            tuple(sorted(l["type"] + ("@joint" if l["on"][0] == "joint" else "") for l in sc["laws"])),
            tuple(sorted(c["type"] for c in sc["contacts"])),
            tuple(sorted(kinds)),
        )
    )


def shrink(plan):
    if len(plan["splits"]) > 1:
        for i in range(len(plan["splits"])):
            yield dict(plan, splits=plan["splits"][:i] + plan["splits"][i + 1 :])
    so = plan["solver"]
    if so["steps"] > 4:
        n = max(4, so["steps"] // 2)
        yield dict(plan, solver=dict(so, steps=n), splits=[min(k, n - 1) for k in plan["splits"]])
    if plan["splits"] and plan["splits"][0] > 1:
        yield dict(plan, splits=[max(1, plan["splits"][0] // 2)])
    if plan["durable"] == "file":
        yield dict(plan, durable="memory")
    if plan["copy"] != "before":
        yield dict(plan, copy="before")
    sc = plan["scene"]
    for key in ("forces", "actuators", "laws", "contacts"):
        for i in range(len(sc.get(key, [])) - 1, -1, -1):
            new = dict(sc)
            new[key] = sc[key][:i] + sc[key][i + 1 :]
            yield dict(plan, scene=new)
    if sc.get("gravity") is not None:
        yield dict(plan, scene=dict(sc, gravity=None))
