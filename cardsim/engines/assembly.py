"""C14 - system assembly is a faithful, repeatable scatter (DESIGN 5.1).

History machine over one real ``System`` and a pool of real contributions
plus harness-defined fake contributions that exercise every scatter method
(velocity-level constraints, state-dependent mass matrix, constant force
reservoirs, several contributions overlapping on the same DOFs).  Reference
model: an ordered list (the "single-copy log") + a dense scatter written in
the harness.
"""

import contextlib
import io
import warnings

import numpy as np

from ..core import violation, ddmin_list
from .. import rot
from ..scenes import build

PROPERTY = "C14"
LEVEL = "exploration"
BUDGET = {"quick": 1600, "thorough": 60000}
CHUNK = 10
RUN_TIMEOUT_S = 1500
RULE = (
    "seeded histories (3..25 ops) over one System and a pool of 6..16 contributions (rigid bodies, point masses, frames, "
    "all joint types, springs / Kelvin-Voigt / Maxwell elements on two-point interactions and revolute joints, motors, a clamped "
    "Cosserat rod of any formulation with a tip force (15 % of the histories), "
    "PD controllers, forces and moments, sphere-plane and sphere-sphere contacts, plus duck-typed fake bodies with "
    "state-dependent mass matrix and fake couplers with g / gamma / c / la_tau / g_N / gamma_F families incl. constant "
    "force reservoirs); ops add, extend, remove, pop, re-add, add-twice, remove-absent, assemble, assemble-again, evaluate; "
    "names drawn from a 5-element pool with duplicates and an adversarial '<name>_contr<k>'. After every op: registry == "
    "{name: contribution} and names unique; after assemble: index sets recomputed by the model partition the coordinates; "
    "every system evaluation method equals a dense reference scatter at 2 random states; assemble-again changes nothing. "
    "distinct = (op-kind sequence with runs collapsed, first 10) x set of contribution classes assembled; "
    "non-trivial = at least one assemble with >= 3 contributions followed by an evaluate"
)
RULE += " Arrays returned at the first evaluation state are kept and compared again after the evaluation at the second state (no shared result storage)."
RULE += " System.step_callback is compared as the sequential application of the contributions' callbacks in registration order (order-sensitive callbacks on fake bodies and couplers that share coordinates; the harness's own evaluation leaves Sphere2Sphere's reference basis untouched)."
COMPONENTS = {
    "real": ["cardillo.System (add/remove/pop/extend/assemble and every evaluation method)", "all library contribution classes listed in the rule"],
    "stub": ["FakeBody / FakeCoupler contributions (harness-defined, duck-typed) supply interface families no library contribution has"],
    "model": ["ordered list + dict registry", "dense numpy scatter of the contributions' local methods"],
}
ASSUMPTIONS = [
    "assembly runs with compute_consistent_initial_conditions=False (initial-condition consistency is C16's subject)",
    "contributions are only removed while nothing present refers to them (the property does not speak about dangling references)",
]
REQUIRED_PROBES = {"quick": ["op_assemble", "op_evaluate", "op_remove", "op_pop", "name_collision_generated", "fake_present", "assemble_again", "rod_present"]}

NAME_POOL = ["x", "y", "x_contr3", "x_contr4", "body"]
DIMS = ["nq", "nu", "nla_c", "nla_tau", "ntau", "nla_g", "nla_gamma", "nla_S", "nla_N", "nla_F"]
DOFNAME = {
    "nq": "my_qDOF",
    "nu": "my_uDOF",
    "nla_c": "la_cDOF",
    "nla_tau": "la_tauDOF",
    "ntau": "tauDOF",
    "nla_g": "la_gDOF",
    "nla_gamma": "la_gammaDOF",
    "nla_S": "la_SDOF",
    "nla_N": "la_NDOF",
    "nla_F": "la_FDOF",
}


# ------------------------------------------------------------------ fakes
class _Fn:
    """Deterministic smooth map R^n -> R^shape, fixed by a seed."""

    def __init__(self, seed, n_in, shape):
        r = np.random.Generator(np.random.PCG64(seed))
        self.shape = tuple(shape)
        n_out = int(np.prod(self.shape)) if self.shape else 1
        self.W = r.normal(size=(n_out, n_in + 1))
        self.b = r.normal(size=n_out)

    def __call__(self, *args):
        cplx = any(np.iscomplexobj(a) for a in args)
        x = np.concatenate([np.atleast_1d(np.asarray(a, dtype=complex if cplx else float)).ravel() for a in args] + [[1.0]])
        y = np.sin(self.W @ x + self.b)
        return y.reshape(self.shape) if self.shape else (y[0] if cplx else float(y[0]))


class FakeBody:
    """Owns coordinates; state-dependent mass matrix; optional g_S."""

    def __init__(self, spec, name):
        self.name = name
        self.nq, self.nu = spec["nq"], spec["nu"]
        s = spec["seed"]
        self.q0 = np.array(spec["q0"], dtype=float)
        self.u0 = np.array(spec["u0"], dtype=float)
        self.constant_mass_matrix = False
        nq, nu = self.nq, self.nu
        self._q_dot = _Fn(s + 1, 1 + nq + nu, (nq,))
        self._q_dot_q = _Fn(s + 2, 1 + nq + nu, (nq, nq))
        self._q_dot_u = _Fn(s + 3, 1 + nq, (nq, nu))
        self._M = _Fn(s + 4, 1 + nq, (nu, nu))
        self._Mu_q = _Fn(s + 5, 1 + nq + nu, (nu, nq))
        self._h = _Fn(s + 6, 1 + nq + nu, (nu,))
        self._h_q = _Fn(s + 7, 1 + nq + nu, (nu, nq))
        self._h_u = _Fn(s + 8, 1 + nq + nu, (nu, nu))
        self._E = _Fn(s + 9, 1 + nq + nu, ())
        if spec.get("nla_S"):
            self.nla_S = spec["nla_S"]
            self._g_S = _Fn(s + 10, 1 + nq, (self.nla_S,))
            self._g_S_q = _Fn(s + 11, 1 + nq, (self.nla_S, nq))
            self.g_S = lambda t, q: self._g_S(t, q)
            self.g_S_q = lambda t, q: self._g_S_q(t, q)

    def local_qDOF_P(self, xi=None):
        return np.arange(self.nq)

    def local_uDOF_P(self, xi=None):
        return np.arange(self.nu)

    def q_dot(self, t, q, u):
        return self._q_dot(t, q, u)

    def q_dot_q(self, t, q, u):
        return self._q_dot_q(t, q, u)

    def q_dot_u(self, t, q):
        return self._q_dot_u(t, q)

    def M(self, t, q):
        return self._M(t, q)

    def Mu_q(self, t, q, u):
        return self._Mu_q(t, q, u)

    def h(self, t, q, u):
        return self._h(t, q, u)

    def h_q(self, t, q, u):
        return self._h_q(t, q, u)

    def h_u(self, t, q, u):
        return self._h_u(t, q, u)

    def E_kin(self, t, q, u):
        return self._E(t, q, u)

    def E_pot(self, t, q):
        return self._E(t, q, np.zeros(self.nu))

    def step_callback(self, t, q, u):
        # a deterministic, non-idempotent, order-sensitive map (like a normalisation followed by a clipping)
        return q + 0.25 * np.sin(q + t), 0.5 * u + 0.125


class FakeCoupler:
    """No own coordinates; couples the DOFs of its ``subs``; random subset of
    interface families."""

    def __init__(self, spec, subs, name):
        self.name = name
        self.subs = subs
        self.spec = spec
        self._nq = sum(s.nq for s in subs)
        self._nu = sum(s.nu for s in subs)
        nq, nu = self._nq, self._nu
        s = spec["seed"]
        fam = spec["families"]
        k = 0

        def F(n_in, shape):
            nonlocal k
            k += 1
            return _Fn(s + 100 * k, n_in, shape)

        if "h" in fam:
            f1, f2, f3, f4 = F(1 + nq + nu, (nu,)), F(1 + nq + nu, (nu, nq)), F(1 + nq + nu, (nu, nu)), F(1 + nq, ())
            self.h = lambda t, q, u: f1(t, q, u)
            self.h_q = lambda t, q, u: f2(t, q, u)
            self.h_u = lambda t, q, u: f3(t, q, u)
            self.E_pot = lambda t, q: f4(t, q)
        if "g" in fam:
            n = self.nla_g = fam["g"]
            fs = {
                "g": F(1 + nq, (n,)),
                "g_q": F(1 + nq, (n, nq)),
                "g_q_T_mu_q": F(1 + nq + n, (nq, nq)),
                "W_g": F(1 + nq, (nu, n)),
                "Wla_g_q": F(1 + nq + n, (nu, nq)),
                "g_dot": F(1 + nq + nu, (n,)),
                "g_dot_u": F(1 + nq, (n, nu)),
                "g_dot_q": F(1 + nq + nu, (n, nq)),
                "g_ddot": F(1 + nq + 2 * nu, (n,)),
            }
            for name_, f in fs.items():
                setattr(self, name_, (lambda f: lambda *a: f(*a))(f))
        if "gamma" in fam:
            n = self.nla_gamma = fam["gamma"]
            fs = {
                "gamma": F(1 + nq + nu, (n,)),
                "gamma_q": F(1 + nq + nu, (n, nq)),
                "gamma_u": F(1 + nq, (n, nu)),
                "gamma_dot": F(1 + nq + 2 * nu, (n,)),
                "gamma_dot_q": F(1 + nq + 2 * nu, (n, nq)),
                "gamma_dot_u": F(1 + nq + 2 * nu, (n, nu)),
                "W_gamma": F(1 + nq, (nu, n)),
                "Wla_gamma_q": F(1 + nq + n, (nu, nq)),
            }
            for name_, f in fs.items():
                setattr(self, name_, (lambda f: lambda *a: f(*a))(f))
        if "c" in fam:
            n = self.nla_c = fam["c"]
            fs = {
                "la_c": F(1 + nq + nu, (n,)),
                "c": F(1 + nq + nu + n, (n,)),
                "c_q": F(1 + nq + nu + n, (n, nq)),
                "c_u": F(1 + nq + nu + n, (n, nu)),
                "W_c": F(1 + nq, (nu, n)),
                "Wla_c_q": F(1 + nq + n, (nu, nq)),
            }
            for name_, f in fs.items():
                setattr(self, name_, (lambda f: lambda *a: f(*a))(f))
            C = _Fn(s + 7777, 0, (n, n))()
            self.c_la_c = lambda: C
        if "tau" in fam:
            n = self.nla_tau = fam["tau"]
            self.ntau = spec.get("ntau", 1)
            fs = {
                "W_tau": F(1 + nq, (nu, n)),
                "la_tau": F(1 + nq + nu, (n,)),
                "Wla_tau_q": F(1 + nq + nu, (nu, nq)),
                "Wla_tau_u": F(1 + nq + nu, (nu, nu)),
                "tau": F(1, (self.ntau,)),
            }
            for name_, f in fs.items():
                setattr(self, name_, (lambda f: lambda *a: f(*a))(f))
        if "N" in fam:
            n = self.nla_N = fam["N"]
            self.e_N = np.array(spec["e_N"], dtype=float)
            fs = {
                "g_N": F(1 + nq, (n,)),
                "g_N_q": F(1 + nq, (n, nq)),
                "W_N": F(1 + nq, (nu, n)),
                "g_N_dot": F(1 + nq + nu, (n,)),
                "g_N_dot_q": F(1 + nq + nu, (n, nq)),
                "g_N_dot_u": F(1 + nq, (n, nu)),
                "g_N_ddot": F(1 + nq + 2 * nu, (n,)),
                "Wla_N_q": F(1 + nq + n, (nu, nq)),
            }
            for name_, f in fs.items():
                setattr(self, name_, (lambda f: lambda *a: f(*a))(f))
        if "F" in fam:
            from cardillo.math.prox import Sphere

            n = self.nla_F = fam["F"]
            self.e_F = np.array(spec["e_F"], dtype=float)
            if "N" in fam and not spec.get("reservoir"):
                self.friction_laws = [([0], list(range(n)), Sphere(0.3))]
            else:
                self.friction_laws = [([], list(range(n)), Sphere(0.3))]  # constant force reservoir
            fs = {
                "gamma_F": F(1 + nq + nu, (n,)),
                "gamma_F_q": F(1 + nq + nu, (n, nq)),
                "gamma_F_u": F(1 + nq, (n, nu)),
                "gamma_F_dot": F(1 + nq + 2 * nu, (n,)),
                "gamma_F_dot_q": F(1 + nq + 2 * nu, (n, nq)),
                "gamma_F_dot_u": F(1 + nq + 2 * nu, (n, nu)),
                "W_F": F(1 + nq, (nu, n)),
                "Wla_F_q": F(1 + nq + n, (nu, nq)),
            }
            for name_, f in fs.items():
                setattr(self, name_, (lambda f: lambda *a: f(*a))(f))

        if "step" in fam:
            # a contribution that post-processes the coordinates of the bodies it couples (it sees what their own
            # callbacks left, because callbacks run in registration order)
            self.step_callback = lambda t, q, u: (q * q + 0.5, u - 0.25 * np.cos(u))

    def assembler_callback(self):
        self.qDOF = np.concatenate([s.qDOF for s in self.subs]) if self.subs else np.array([], dtype=int)
        self.uDOF = np.concatenate([s.uDOF for s in self.subs]) if self.subs else np.array([], dtype=int)


# ------------------------------------------------------------------ generator
def _gen_scene(rng):
    nb = int(rng.integers(1, 4))
    bodies = []
    for i in range(nb):
        kind = "rigid" if rng.random() < 0.65 else "point"
        b = {"kind": kind, "m": float(rng.uniform(0.5, 3)), "r": (rng.uniform(-1, 1, 3) + np.array([2.0 * i, 0, 0])).tolist()}
        if kind == "rigid":
            b["theta"] = [float(x) for x in rng.uniform(0.1, 1.0, 3)]
            b["p"] = rot.rand_quat(rng).tolist()
        bodies.append(b)
    rigid = [i for i, b in enumerate(bodies) if b["kind"] == "rigid"]
    scene = {"bodies": bodies, "frames": [], "joints": [], "tpis": [], "laws": [], "actuators": [], "forces": [], "contacts": []}
    if rng.random() < 0.5:
        scene["frames"].append({"r": rng.uniform(-1, 1, 3).tolist(), "p": rot.rand_quat(rng).tolist()})
    # joints (only between rigid bodies / origin / frames, spherical also with point masses)
    for _ in range(int(rng.integers(0, 3))):
        if not rigid:
            break
        b = int(rng.choice(rigid))
        cands = ["origin"] + [["body", i] for i in rigid if i != b] + [["frame", k] for k in range(len(scene["frames"]))]
        a = cands[int(rng.integers(len(cands)))]
        ty = str(rng.choice(["revolute", "spherical", "rigid", "prismatic", "cylindrical", "planarizer", "fixed_distance"]))
        jt = {"type": ty, "a": a, "b": ["body", b], "axis": int(rng.integers(3)), "rJ": rng.uniform(-1, 1, 3).tolist(), "pJ": rot.rand_quat(rng).tolist()}
        if ty == "fixed_distance":
            jt["ra"] = rng.uniform(-0.2, 0.2, 3).tolist()
            jt["rb"] = (rng.uniform(-0.2, 0.2, 3) + np.array([0, 0, 0.5])).tolist()
        scene["joints"].append(jt)
    # two-point interactions with force laws
    for _ in range(int(rng.integers(0, 3))):
        b = int(rng.integers(nb))
        cands = ["origin"] + [["body", i] for i in range(nb) if i != b]
        a = cands[int(rng.integers(len(cands)))]
        scene["tpis"].append({"a": a, "b": ["body", b], "ra": rng.uniform(-0.1, 0.1, 3).tolist(), "rb": rng.uniform(-0.1, 0.1, 3).tolist(), "add": bool(rng.random() < 0.4)})
        ty = str(rng.choice(["spring", "kv", "maxwell"]))
        scene["laws"].append(
            {
                "type": ty,
                "on": ["tpi", len(scene["tpis"]) - 1],
                "k": float(rng.uniform(1, 20)),
                "d": float(rng.uniform(0.1, 2)),
                "l_ref": None if rng.random() < 0.5 else float(rng.uniform(0.5, 2)),
                "compliance": bool(rng.random() < 0.5),
            }
        )
    rev = [j for j, jt in enumerate(scene["joints"]) if jt["type"] == "revolute"]
    for j in rev:
        x = rng.random()
        if x < 0.35:
            scene["laws"].append({"type": str(rng.choice(["spring", "kv"])), "on": ["joint", j], "k": float(rng.uniform(1, 20)), "d": 0.5, "l_ref": 0.0, "compliance": bool(rng.random() < 0.5)})
        elif x < 0.6:
            scene["actuators"].append({"type": "motor", "joint": j, "tau": float(rng.uniform(-3, 3)), "time": str(rng.choice(["const", "sin"]))})
        elif x < 0.8:
            scene["actuators"].append({"type": "pd", "joint": j, "kp": 3.0, "kd": 0.4, "target": [0.3, 0.0]})
    if rng.random() < 0.7:
        scene["gravity"] = [0.0, 0.0, -9.81]
    for _ in range(int(rng.integers(0, 3))):
        b = int(rng.integers(nb))
        ty = str(rng.choice(["force", "b_force", "moment", "b_moment"])) if bodies[b]["kind"] == "rigid" else "force"
        scene["forces"].append({"type": ty, "body": b, "vec": rng.normal(size=3).tolist(), "rB": rng.uniform(-0.3, 0.3, 3).tolist(), "time": str(rng.choice(["const", "ramp", "sin"]))})
    for _ in range(int(rng.integers(0, 3))):
        if rng.random() < 0.6:
            b = int(rng.integers(nb))
            scene["contacts"].append({"type": "s2p", "plane": {"r": [0, 0, -5.0], "p": [1, 0, 0, 0]}, "body": b, "radius": 0.1, "mu": float(rng.choice([0.0, 0.3])), "eN": 0.5, "eF": 0.0})
        elif nb >= 2:
            a, b = [int(x) for x in rng.permutation(nb)[:2]]
            scene["contacts"].append({"type": "s2s", "a": a, "b": b, "ra": 0.1, "rb": 0.1, "mu": float(rng.choice([0.0, 0.4])), "eN": 0.2, "eF": 0.0})
    return scene


def _gen_fakes(rng, n_bodies_real):
    fakes = []
    nfb = int(rng.integers(0, 3))
    for _ in range(nfb):
        nq, nu = int(rng.integers(1, 4)), int(rng.integers(1, 4))
        fakes.append(
            {
                "fake": "body",
                "nq": nq,
                "nu": nu,
                "q0": rng.normal(size=nq).tolist(),
                "u0": rng.normal(size=nu).tolist(),
                "seed": int(rng.integers(1, 10**6)),
                "nla_S": int(rng.integers(0, 2)),
            }
        )
    ncoup = int(rng.integers(0, 4)) if (nfb + n_bodies_real) else 0
    for _ in range(ncoup):
        # subs: indices into [real bodies..., fake bodies...]
        ntot = n_bodies_real + nfb
        ns = int(rng.integers(1, min(ntot, 3) + 1))
        subs = [int(x) for x in rng.permutation(ntot)[:ns]]
        fam = {}
        for key, p in (("h", 0.4), ("g", 0.5), ("gamma", 0.5), ("c", 0.4), ("tau", 0.4), ("N", 0.5)):
            if rng.random() < p:
                fam[key] = int(rng.integers(1, 3)) if key != "h" else 1
        if rng.random() < 0.5:
            fam["F"] = 2
        if rng.random() < 0.4:
            fam["step"] = 1
        if not fam:
            fam["gamma"] = 1
        spec = {"fake": "coupler", "subs": subs, "families": fam, "seed": int(rng.integers(1, 10**6)), "ntau": int(rng.integers(1, 3))}
        if "N" in fam:
            spec["e_N"] = rng.uniform(0, 1, fam["N"]).tolist()
        if "F" in fam:
            spec["e_F"] = rng.uniform(0, 1, fam["F"]).tolist()
            spec["reservoir"] = bool(rng.random() < 0.4)
        fakes.append(spec)
    return fakes


def gen(rng, tier, index):
    scene = _gen_scene(rng)
    use_fakes = rng.random() < 0.6
    fakes = _gen_fakes(rng, len(scene["bodies"])) if use_fakes else []
    plan = {"scene": scene, "fakes": fakes, "eval_seed": int(rng.integers(2**31))}
    if rng.random() < 0.15:
        from ..rods import gen_rod_spec

        spec = gen_rod_spec(rng)
        spec["nel"] = min(spec["nel"], 2)
        plan["rod"] = {"spec": spec, "r": rng.uniform(-1, 1, 3).tolist(), "p": rot.rand_quat(rng).tolist(), "clamp": bool(rng.random() < 0.7), "tip_force": rng.normal(size=3).tolist()}
    # pool size is known only after construction; ops address pool items modulo its size
    n_ops = int(rng.integers(3, 26))
    npool_guess = 24
    names = [NAME_POOL[int(rng.integers(len(NAME_POOL)))] if rng.random() < 0.5 else None for _ in range(npool_guess)]
    plan["names"] = names
    ops = [{"op": "add_all"}] if rng.random() < 0.6 else []
    for _ in range(n_ops):
        x = rng.random()
        i = int(rng.integers(1000))
        if x < 0.22:
            ops.append({"op": "add", "i": [int(rng.integers(1000)) for _ in range(int(rng.integers(1, 4)))]})
        elif x < 0.30:
            ops.append({"op": "extend", "i": [int(rng.integers(1000)) for _ in range(int(rng.integers(1, 4)))]})
        elif x < 0.42:
            ops.append({"op": "remove", "i": i})
        elif x < 0.50:
            ops.append({"op": "pop", "i": i})
        elif x < 0.56:
            ops.append({"op": "readd", "i": i})
        elif x < 0.60:
            ops.append({"op": "add_twice", "i": i})
        elif x < 0.64:
            ops.append({"op": "remove_absent", "i": i})
        elif x < 0.82:
            ops.append({"op": "assemble"})
            if rng.random() < 0.6:
                ops.append({"op": "evaluate"})
        elif x < 0.92:
            ops.append({"op": "assemble_again"})
        else:
            ops.append({"op": "evaluate"})
    ops += [{"op": "assemble"}, {"op": "evaluate"}]
    plan["ops"] = ops
    return plan


# ------------------------------------------------------------------ pool
class Pool:
    def __init__(self, plan):
        scene = plan["scene"]
        names = plan["names"]
        # names: applied positionally to the pool order below
        B = build(scene, assemble=False, add_to_system=False)
        self.system = B.system
        items = list(B.order)
        if plan.get("rod"):
            from ..rods import build_rod
            from cardillo.constraints import RigidConnection
            from cardillo.forces import Force

            rp = plan["rod"]
            rod = build_rod(rp["spec"], r0=np.array(rp["r"]), A0=rot.quat_to_mat(rp["p"]), name="rod")
            items.append(rod)
            if rp["clamp"]:
                items.append(RigidConnection(B.system.origin, rod, xi2=(0,), name="rod_clamp"))
            items.append(Force(np.array(rp["tip_force"]), rod, (1,), name="rod_tip_force"))
        nb = len(B.bodies)
        bodies_all = list(B.bodies)
        fakebodies = []
        for k, f in enumerate(plan["fakes"]):
            if f["fake"] == "body":
                fb = FakeBody(f, f"fakebody{k}")
                fakebodies.append(fb)
                items.append(fb)
        bodies_all += fakebodies
        self.fake_items = list(fakebodies)
        for k, f in enumerate(plan["fakes"]):
            if f["fake"] == "coupler":
                subs = [bodies_all[i] for i in f["subs"] if i < len(bodies_all)]
                fc = FakeCoupler(f, subs, f"fakecoupler{k}")
                items.append(fc)
                self.fake_items.append(fc)
        self.items = items
        for k, c in enumerate(items):
            nm = names[k % len(names)]
            if nm is not None:
                c.name = nm
        # own dimensions, recorded before anything is assembled
        self.dims = []
        for c in items:
            self.dims.append({d: int(getattr(c, d)) for d in DIMS if hasattr(c, d)})
        # dependencies
        idx = {id(c): k for k, c in enumerate(items)}
        self.deps = []
        for c in items:
            d = set()
            for attr in ("subsystem", "subsystem1", "subsystem2", "frame"):
                s = getattr(c, attr, None)
                if s is None:
                    continue
                stack = [s]
                while stack:
                    x = stack.pop()
                    if id(x) in idx:
                        d.add(idx[id(x)])
                    else:
                        for a2 in ("subsystem", "subsystem1", "subsystem2"):
                            y = getattr(x, a2, None)
                            if y is not None:
                                stack.append(y)
            for s in getattr(c, "subs", []):
                d.add(idx[id(s)])
            self.deps.append(d)


def _expected_qu(c, exp_q, exp_u, pool_index):
    """Connectivity recomputed by the model: (qDOF, uDOF) a contribution must
    use, from the model's own index sets of the coordinate owners."""

    def of(s):
        k = pool_index.get(id(s))
        if k is not None and k in exp_q:
            return exp_q[k], exp_u.get(k, np.array([], dtype=int))
        if hasattr(s, "subsystem1") or hasattr(s, "subsystem"):
            return _expected_qu(s, exp_q, exp_u, pool_index)
        # origin / frames: no coordinates
        return np.array([], dtype=int), np.array([], dtype=int)

    if isinstance(c, FakeCoupler):
        qs, us = zip(*[of(s) for s in c.subs]) if c.subs else ((), ())
        cat = lambda xs: np.concatenate(xs) if xs else np.array([], dtype=int)
        return cat(list(qs)), cat(list(us))
    if hasattr(c, "subsystem1"):
        q1, u1 = of(c.subsystem1)
        q2, u2 = of(c.subsystem2)
        xi1, xi2 = getattr(c, "xi1", None), getattr(c, "xi2", None)
        return (
            np.concatenate([q1[c.subsystem1.local_qDOF_P(xi1)], q2[c.subsystem2.local_qDOF_P(xi2)]]),
            np.concatenate([u1[c.subsystem1.local_uDOF_P(xi1)], u2[c.subsystem2.local_uDOF_P(xi2)]]),
        )
    if hasattr(c, "subsystem"):
        s = c.subsystem
        qs, us = of(s)
        if hasattr(s, "local_qDOF_P"):
            xi = getattr(c, "xi", None)
            qs, us = qs[s.local_qDOF_P(xi)], us[s.local_uDOF_P(xi)]
        k = pool_index.get(id(c))
        if k is not None and k in exp_q and len(exp_q[k]):  # Maxwell element: own coordinate first
            qs = np.concatenate([exp_q[k], qs])
        return qs, us
    k = pool_index[id(c)]
    return exp_q.get(k, np.array([], dtype=int)), exp_u.get(k, np.array([], dtype=int))


# ------------------------------------------------------------------ dense reference
def _has(c, m):
    return hasattr(c, m) and callable(getattr(c, m))


class Ref:
    """Dense scatter of the local methods, using the model's index sets."""

    def __init__(self, contribs, conn, own, totals):
        self.cs = contribs
        self.conn = conn  # id -> (qDOF, uDOF)
        self.own = own  # id -> {dim: index array}
        self.n = totals

    def q(self, c):
        return self.conn[id(c)][0]

    def u(self, c):
        return self.conn[id(c)][1]

    def d(self, c, dim):
        return self.own[id(c)][dim]

    def vec(self, n, fam, rows, f, add=False):
        out = np.zeros(n)
        for c in self.cs:
            if _has(c, fam):
                val = np.asarray(f(c), dtype=float)
                if add:
                    out[rows(c)] += val
                else:
                    out[rows(c)] = val
        return out

    def mat(self, shape, fam, rows, cols, f):
        out = np.zeros(shape)
        for c in self.cs:
            if _has(c, fam):
                r, k = np.asarray(rows(c), dtype=int), np.asarray(cols(c), dtype=int)
                val = f(c)
                if val is None:
                    continue
                if hasattr(val, "toarray"):
                    val = val.toarray()
                val = np.atleast_2d(np.asarray(val, dtype=float))
                if val.shape != (len(r), len(k)):
                    val = val.reshape(len(r), len(k))
                np.add.at(out, (r[:, None], k[None, :]), val)
        return out


def _methods(S):
    """name -> (system call, reference call); S = state dict."""
    t, q, u, ud = S["t"], S["q"], S["u"], S["ud"]
    la_g, la_ga, la_c, la_N, la_F, mu = S["la_g"], S["la_gamma"], S["la_c"], S["la_N"], S["la_F"], S["mu_g"]
    t2, q2, u2 = S["t2"], S["q2"], S["u2"]
    zu = np.zeros_like(u)
    M = {}

    def V(name, syscall, dim, fam, f, add=False, rowdim=None):
        M[name] = (syscall, lambda R: R.vec(R.n[dim], fam, (lambda c: R.d(c, rowdim or dim)), (lambda c: f(R, c)), add))

    def U(name, syscall, fam, f):  # vectors over velocity coordinates (accumulated)
        M[name] = (syscall, lambda R: R.vec(R.n["nu"], fam, R.u, (lambda c: f(R, c)), True))

    def X(name, syscall, rdim, cdim, fam, f):
        def rows_cols(R, c, which):
            if which == "q":
                return R.q(c)
            if which == "u":
                return R.u(c)
            if which == "myq":
                return R.d(c, "nq")
            return R.d(c, which)

        size = {"q": "nq", "u": "nu", "myq": "nq"}
        M[name] = (
            syscall,
            lambda R: R.mat(
                (R.n[size.get(rdim, rdim)], R.n[size.get(cdim, cdim)]),
                fam,
                (lambda c: rows_cols(R, c, rdim)),
                (lambda c: rows_cols(R, c, cdim)),
                (lambda c: f(R, c)),
            ),
        )

    A = lambda f: (lambda s: np.asarray(f(s).toarray() if hasattr(f(s), "toarray") else f(s), dtype=float))
    Q = lambda R, c: q[R.q(c)]
    Uu = lambda R, c: u[R.u(c)]
    UD = lambda R, c: ud[R.u(c)]

    # step callback: the contributions' callbacks applied one after another in registration order, each on the
    # state the previous ones left
    def ref_step(R):
        qq, uu = q.copy(), u.copy()
        for c in R.cs:
            if _has(c, "step_callback"):
                qq[R.q(c)], uu[R.u(c)] = c.step_callback(t, qq[R.q(c)], uu[R.u(c)])
        return np.concatenate([qq, uu])

    def keeping_state(f, contribs):
        """step callbacks may update internal state (Sphere2Sphere's reference contact basis): the evaluation of the
        harness must not change the system under test"""
        saved = [(c, c.reference_contact_basis.copy()) for c in contribs if hasattr(c, "reference_contact_basis")]
        try:
            return f()
        finally:
            for c, basis in saved:
                c.reference_contact_basis = basis
                for nm in ("t1t2_cache", "t1t2_q1_q2_cache"):
                    if hasattr(c, nm):
                        getattr(c, nm).clear()

    ref_step0 = ref_step
    ref_step = lambda R: keeping_state(lambda: ref_step0(R), R.cs)
    M["step_callback"] = (lambda s: keeping_state(lambda: np.concatenate(s.step_callback(t, q.copy(), u.copy())), s.contributions), ref_step)
    # kinematics
    V("q_dot", lambda s: s.q_dot(t, q, u), "nq", "q_dot", lambda R, c: c.q_dot(t, Q(R, c), Uu(R, c)))
    X("q_dot_q", lambda s: s.q_dot_q(t, q, u).toarray(), "myq", "q", "q_dot_q", lambda R, c: c.q_dot_q(t, Q(R, c), Uu(R, c)))
    X("q_dot_u", lambda s: s.q_dot_u(t, q).toarray(), "myq", "u", "q_dot_u", lambda R, c: c.q_dot_u(t, Q(R, c)))
    # energies
    M["E_pot"] = (lambda s: np.array([s.E_pot(t, q)]), lambda R: np.array([sum(float(c.E_pot(t, Q(R, c))) for c in R.cs if _has(c, "E_pot"))]))
    M["E_kin"] = (lambda s: np.array([s.E_kin(t, q, u)]), lambda R: np.array([sum(float(c.E_kin(t, Q(R, c), Uu(R, c))) for c in R.cs if _has(c, "E_kin"))]))
    # equations of motion
    X("M", lambda s: s.M(t, q).toarray(), "u", "u", "M", lambda R, c: c.M(t, Q(R, c)))
    X("Mu_q", lambda s: s.Mu_q(t, q, u).toarray(), "u", "q", "Mu_q", lambda R, c: c.Mu_q(t, Q(R, c), Uu(R, c)))
    U("h", lambda s: s.h(t, q, u), "h", lambda R, c: c.h(t, Q(R, c), Uu(R, c)))
    X("h_q", lambda s: s.h_q(t, q, u).toarray(), "u", "q", "h_q", lambda R, c: c.h_q(t, Q(R, c), Uu(R, c)))
    X("h_u", lambda s: s.h_u(t, q, u).toarray(), "u", "u", "h_u", lambda R, c: c.h_u(t, Q(R, c), Uu(R, c)))
    # compliance
    LC = lambda R, c: la_c[R.d(c, "nla_c")]
    V("la_c", lambda s: s.la_c(t, q, u), "nla_c", "c", lambda R, c: c.la_c(t, Q(R, c), Uu(R, c)))
    V("c", lambda s: s.c(t, q, u, la_c), "nla_c", "c", lambda R, c: c.c(t, Q(R, c), Uu(R, c), LC(R, c)))
    X("c_q", lambda s: s.c_q(t, q, u, la_c).toarray(), "nla_c", "q", "c_q", lambda R, c: c.c_q(t, Q(R, c), Uu(R, c), LC(R, c)))
    X("c_u", lambda s: s.c_u(t, q, u, la_c).toarray(), "nla_c", "u", "c_u", lambda R, c: c.c_u(t, Q(R, c), Uu(R, c), LC(R, c)))
    X("c_la_c", lambda s: s.c_la_c().toarray(), "nla_c", "nla_c", "c", lambda R, c: c.c_la_c())
    X("W_c", lambda s: s.W_c(t, q).toarray(), "u", "nla_c", "c", lambda R, c: c.W_c(t, Q(R, c)))
    X("Wla_c_q", lambda s: s.Wla_c_q(t, q, la_c).toarray(), "u", "q", "c_q", lambda R, c: c.Wla_c_q(t, Q(R, c), LC(R, c)))
    # actuators
    X("W_tau", lambda s: s.W_tau(t, q).toarray(), "u", "nla_tau", "la_tau", lambda R, c: c.W_tau(t, Q(R, c)))
    V("la_tau", lambda s: s.la_tau(t, q, u), "nla_tau", "la_tau", lambda R, c: c.la_tau(t, Q(R, c), Uu(R, c)))
    X("Wla_tau_q", lambda s: s.Wla_tau_q(t, q, u).toarray(), "u", "q", "la_tau", lambda R, c: c.Wla_tau_q(t, Q(R, c), Uu(R, c)))
    X("Wla_tau_u", lambda s: s.Wla_tau_u(t, q, u).toarray(), "u", "u", "la_tau", lambda R, c: c.Wla_tau_u(t, Q(R, c), Uu(R, c)))
    V("tau", lambda s: s.tau(t), "ntau", "tau", lambda R, c: c.tau(t))
    # bilateral constraints, position level
    LG = lambda R, c: la_g[R.d(c, "nla_g")]
    V("g", lambda s: s.g(t, q), "nla_g", "g", lambda R, c: c.g(t, Q(R, c)))
    X("g_q", lambda s: s.g_q(t, q).toarray(), "nla_g", "q", "g", lambda R, c: c.g_q(t, Q(R, c)))
    X("g_q_T_mu_q", lambda s: s.g_q_T_mu_q(t, q, mu).toarray(), "q", "q", "g", lambda R, c: c.g_q_T_mu_q(t, Q(R, c), mu[R.d(c, "nla_g")]))
    X("W_g", lambda s: s.W_g(t, q).toarray(), "u", "nla_g", "g", lambda R, c: c.W_g(t, Q(R, c)))
    X("Wla_g_q", lambda s: s.Wla_g_q(t, q, la_g).toarray(), "u", "q", "g", lambda R, c: c.Wla_g_q(t, Q(R, c), LG(R, c)))
    V("g_dot", lambda s: s.g_dot(t, q, u), "nla_g", "g", lambda R, c: c.g_dot(t, Q(R, c), Uu(R, c)))
    V("chi_g", lambda s: s.chi_g(t, q), "nla_g", "g", lambda R, c: c.g_dot(t, Q(R, c), 0 * Uu(R, c)))
    X("g_dot_u", lambda s: s.g_dot_u(t, q).toarray(), "nla_g", "u", "g", lambda R, c: c.g_dot_u(t, Q(R, c)))
    X("g_dot_q", lambda s: s.g_dot_q(t, q, u).toarray(), "nla_g", "q", "g", lambda R, c: c.g_dot_q(t, Q(R, c), Uu(R, c)))
    V("g_ddot", lambda s: s.g_ddot(t, q, u, ud), "nla_g", "g", lambda R, c: c.g_ddot(t, Q(R, c), Uu(R, c), UD(R, c)))
    V("zeta_g", lambda s: s.zeta_g(t, q, u), "nla_g", "g", lambda R, c: c.g_ddot(t, Q(R, c), Uu(R, c), 0 * UD(R, c)))
    # bilateral constraints, velocity level
    LGA = lambda R, c: la_ga[R.d(c, "nla_gamma")]
    V("gamma", lambda s: s.gamma(t, q, u), "nla_gamma", "gamma", lambda R, c: c.gamma(t, Q(R, c), Uu(R, c)))
    V("chi_gamma", lambda s: s.chi_gamma(t, q), "nla_gamma", "gamma", lambda R, c: c.gamma(t, Q(R, c), 0 * Uu(R, c)))
    X("gamma_q", lambda s: s.gamma_q(t, q, u).toarray(), "nla_gamma", "q", "gamma", lambda R, c: c.gamma_q(t, Q(R, c), Uu(R, c)))
    X("gamma_u", lambda s: s.gamma_u(t, q).toarray(), "nla_gamma", "u", "gamma", lambda R, c: c.gamma_u(t, Q(R, c)))
    V("gamma_dot", lambda s: s.gamma_dot(t, q, u, ud), "nla_gamma", "gamma", lambda R, c: c.gamma_dot(t, Q(R, c), Uu(R, c), UD(R, c)))
    V("zeta_gamma", lambda s: s.zeta_gamma(t, q, u), "nla_gamma", "gamma", lambda R, c: c.gamma_dot(t, Q(R, c), Uu(R, c), 0 * UD(R, c)))
    X("gamma_dot_q", lambda s: s.gamma_dot_q(t, q, u, ud).toarray(), "nla_gamma", "q", "gamma", lambda R, c: c.gamma_dot_q(t, Q(R, c), Uu(R, c), UD(R, c)))
    X("gamma_dot_u", lambda s: s.gamma_dot_u(t, q, u, ud).toarray(), "nla_gamma", "u", "gamma", lambda R, c: c.gamma_dot_u(t, Q(R, c), Uu(R, c), UD(R, c)))
    X("W_gamma", lambda s: s.W_gamma(t, q).toarray(), "u", "nla_gamma", "gamma", lambda R, c: c.W_gamma(t, Q(R, c)))
    X("Wla_gamma_q", lambda s: s.Wla_gamma_q(t, q, la_ga).toarray(), "u", "q", "gamma", lambda R, c: c.Wla_gamma_q(t, Q(R, c), LGA(R, c)))
    # stabilisation
    V("g_S", lambda s: s.g_S(t, q), "nla_S", "g_S", lambda R, c: c.g_S(t, Q(R, c)))
    X("g_S_q", lambda s: s.g_S_q(t, q).toarray(), "nla_S", "q", "g_S", lambda R, c: c.g_S_q(t, Q(R, c)))
    # normal contacts
    LN = lambda R, c: la_N[R.d(c, "nla_N")]
    V("g_N", lambda s: s.g_N(t, q), "nla_N", "g_N", lambda R, c: c.g_N(t, Q(R, c)))
    X("g_N_q", lambda s: s.g_N_q(t, q).toarray(), "nla_N", "q", "g_N", lambda R, c: c.g_N_q(t, Q(R, c)))
    X("W_N", lambda s: s.W_N(t, q).toarray(), "u", "nla_N", "g_N", lambda R, c: c.W_N(t, Q(R, c)))
    V("g_N_dot", lambda s: s.g_N_dot(t, q, u), "nla_N", "g_N", lambda R, c: c.g_N_dot(t, Q(R, c), Uu(R, c)))
    V("g_N_ddot", lambda s: s.g_N_ddot(t, q, u, ud), "nla_N", "g_N", lambda R, c: c.g_N_ddot(t, Q(R, c), Uu(R, c), UD(R, c)))
    V(
        "xi_N",
        lambda s: s.xi_N(t2, t, q2, q, u2, u),
        "nla_N",
        "g_N",
        lambda R, c: c.g_N_dot(t, Q(R, c), Uu(R, c)) + np.asarray(c.e_N) * c.g_N_dot(t2, q2[R.q(c)], u2[R.u(c)]),
    )
    X("xi_N_q", lambda s: s.xi_N_q(t, q, u).toarray(), "nla_N", "q", "g_N", lambda R, c: c.g_N_dot_q(t, Q(R, c), Uu(R, c)))
    V("chi_N", lambda s: s.chi_N(t, q), "nla_N", "g_N", lambda R, c: c.g_N_dot(t, Q(R, c), 0 * Uu(R, c)))
    X("g_N_dot_u", lambda s: s.g_N_dot_u(t, q).toarray(), "nla_N", "u", "g_N", lambda R, c: c.g_N_dot_u(t, Q(R, c)))
    X("Wla_N_q", lambda s: s.Wla_N_q(t, q, la_N).toarray(), "u", "q", "g_N", lambda R, c: c.Wla_N_q(t, Q(R, c), LN(R, c)))
    # friction
    LF = lambda R, c: la_F[R.d(c, "nla_F")]
    V("gamma_F", lambda s: s.gamma_F(t, q, u), "nla_F", "gamma_F", lambda R, c: c.gamma_F(t, Q(R, c), Uu(R, c)))
    V("gamma_F_dot", lambda s: s.gamma_F_dot(t, q, u, ud), "nla_F", "gamma_F", lambda R, c: c.gamma_F_dot(t, Q(R, c), Uu(R, c), UD(R, c)))
    V(
        "xi_F",
        lambda s: s.xi_F(t2, t, q2, q, u2, u),
        "nla_F",
        "gamma_F",
        lambda R, c: c.gamma_F(t, Q(R, c), Uu(R, c)) + np.asarray(c.e_F) * c.gamma_F(t2, q2[R.q(c)], u2[R.u(c)]),
    )
    X("xi_F_q", lambda s: s.xi_F_q(t, q, u).toarray(), "nla_F", "q", "gamma_F", lambda R, c: c.gamma_F_q(t, Q(R, c), Uu(R, c)))
    X("gamma_F_q", lambda s: s.gamma_F_q(t, q, u).toarray(), "nla_F", "q", "gamma_F_q", lambda R, c: c.gamma_F_q(t, Q(R, c), Uu(R, c)))
    X("gamma_F_u", lambda s: s.gamma_F_u(t, q).toarray(), "nla_F", "u", "gamma_F", lambda R, c: c.gamma_F_u(t, Q(R, c)))
    X("gamma_F_dot_q", lambda s: s.gamma_F_dot_q(t, q, u, ud).toarray(), "nla_F", "q", "gamma_F", lambda R, c: c.gamma_F_dot_q(t, Q(R, c), Uu(R, c), UD(R, c)))
    X("gamma_F_dot_u", lambda s: s.gamma_F_dot_u(t, q, u, ud).toarray(), "nla_F", "u", "gamma_F", lambda R, c: c.gamma_F_dot_u(t, Q(R, c), Uu(R, c), UD(R, c)))
    X("W_F", lambda s: s.W_F(t, q).toarray(), "u", "nla_F", "gamma_F", lambda R, c: c.W_F(t, Q(R, c)))
    X("Wla_F_q", lambda s: s.Wla_F_q(t, q, la_F).toarray(), "u", "q", "gamma_F", lambda R, c: c.Wla_F_q(t, Q(R, c), LF(R, c)))
    return M


# ------------------------------------------------------------------ executor
class Machine:
    def __init__(self, plan, out, log):
        self.plan, self.out, self.log = plan, out, log
        self.pool = Pool(plan)
        self.system = self.pool.system
        self.items = self.pool.items
        self.pool_index = {id(c): k for k, c in enumerate(self.items)}
        self.present = []  # pool indices in system order (after the origin)
        self.assembled = None  # snapshot of the contribution list at the last assemble
        self.classes_assembled = set()
        self.kinds = []
        self.did_eval = False
        self.max_assembled = 0

    def bad(self, cls, sig, detail):
        self.out["violations"].append(violation(cls, sig, detail))

    # ---- registry invariant, after every op
    def check_registry(self, k, op):
        s = self.system
        want = [s.origin] + [self.items[i] for i in self.present]
        if len(s.contributions) != len(want) or any(a is not b for a, b in zip(s.contributions, want)):
            self.bad("registry_stale", "contributions_list", f"op {k} ({op}): System.contributions differs from the model list")
            return
        names = [c.name for c in s.contributions]
        if len(set(names)) != len(names):
            dup = sorted({n for n in names if names.count(n) > 1})
            self.bad("name_duplicate", op, f"op {k} ({op}): duplicate names {dup} among current contributions")
        m = s.contributions_map
        ghost = sorted(n for n, c in m.items() if not any(c is x for x in s.contributions))
        wrong = sorted(c.name for c in s.contributions if m.get(c.name) is not c)
        if ghost or wrong:
            self.bad(
                "registry_stale",
                op,
                f"op {k} ({op}): registry != {{name: contribution}}; names of absent contributions still registered: {ghost}; current contributions not (or wrongly) registered: {wrong}",
            )

    def addable(self, i):
        return i not in self.present and self.pool.deps[i] <= set(self.present)

    def removable(self, i):
        return i in self.present and not any(i in self.pool.deps[j] for j in self.present)

    def pick(self, n, pred):
        cands = [i for i in range(len(self.items)) if pred(i)]
        return cands[n % len(cands)] if cands else None

    # ---- layout / connectivity expected by the model
    def expected_layout(self):
        off = {d: 0 for d in DIMS}
        own = {}
        exp_q, exp_u = {}, {}
        order = [None] + list(self.present)
        for i in order:
            c = self.system.origin if i is None else self.items[i]
            dims = {"nq": 0, "nu": 0} if i is None else self.pool.dims[i]
            o = {}
            for d in DIMS:
                if d in dims:
                    o[d] = np.arange(dims[d]) + off[d]
                    off[d] += dims[d]
            own[id(c)] = o
            if i is not None:
                if "nq" in o:
                    exp_q[i] = o["nq"]
                if "nu" in o:
                    exp_u[i] = o["nu"]
        return own, off, exp_q, exp_u

    def check_layout(self, k):
        s = self.system
        own, totals, exp_q, exp_u = self.expected_layout()
        for d in DIMS:
            if getattr(s, d) != totals[d]:
                self.bad("dof_partition", d, f"op {k}: System.{d}={getattr(s, d)} but the contributions' dimensions add up to {totals[d]}")
                return None
        conn = {}
        for i in [None] + list(self.present):
            c = s.origin if i is None else self.items[i]
            for d, arr in own[id(c)].items():
                got = getattr(c, DOFNAME[d], None)
                if got is None or not np.array_equal(np.asarray(got), arr):
                    self.bad(
                        "dof_partition",
                        f"{type(c).__name__}.{DOFNAME[d]}",
                        f"op {k}: {c.name}.{DOFNAME[d]}={None if got is None else np.asarray(got).tolist()} expected {arr.tolist()} (contribution order)",
                    )
                    return None
            if i is None:
                conn[id(c)] = (np.array([], dtype=int), np.array([], dtype=int))
                continue
            eq, eu = _expected_qu(c, exp_q, exp_u, self.pool_index)
            conn[id(c)] = (eq, eu)
            for nm, e in (("qDOF", eq), ("uDOF", eu)):
                got = getattr(c, nm, None)
                if got is None:
                    if len(e):
                        self.bad("dof_partition", f"{type(c).__name__}.{nm}", f"op {k}: {c.name} has no {nm} after assemble")
                        return None
                    continue
                if not np.array_equal(np.asarray(got), e):
                    self.bad(
                        "dof_partition",
                        f"{type(c).__name__}.{nm}",
                        f"op {k}: {c.name}.{nm}={np.asarray(got).tolist()} but its subsystems' coordinates are {e.tolist()}",
                    )
                    return None
        # system-level data derived from the contributions during assembly (contribution order, all of them)
        cs = [self.items[i] for i in self.present]
        exp = {
            "e_N": np.concatenate([np.atleast_1d(np.asarray(c.e_N, dtype=float)) for c in cs if hasattr(c, "nla_N")] + [np.zeros(0)]),
            "e_F": np.concatenate([np.atleast_1d(np.asarray(c.e_F, dtype=float)) for c in cs if hasattr(c, "nla_F")] + [np.zeros(0)]),
        }
        for nm, e in exp.items():
            got = np.asarray(getattr(s, nm, np.zeros(0)), dtype=float)
            if got.shape != e.shape or not np.array_equal(got, e):
                self.bad("dof_partition", f"System.{nm}", f"op {k}: System.{nm}={got.tolist()} but the contributions' {nm} in registration order are {e.tolist()}")
                return None
        reservoir = any(len(i_N) == 0 for c in cs if hasattr(c, "nla_F") for i_N, _, _ in c.friction_laws)
        if bool(getattr(s, "constant_force_reservoir", False)) != reservoir:
            self.bad(
                "dof_partition",
                "System.constant_force_reservoir",
                f"op {k}: System.constant_force_reservoir={getattr(s, 'constant_force_reservoir', None)} but {'a' if reservoir else 'no'} contribution has a friction law without normal force (constant force reservoir); friction contributions in order: {[(type(c).__name__, [len(l[0]) for l in c.friction_laws]) for c in cs if hasattr(c, 'nla_F')]}",
            )
            return None
        if reservoir:
            self.out["probes"]["constant_force_reservoir_present"] += 1
        return own, totals, conn

    # ---- evaluation against the dense reference
    def states(self):
        s = self.system
        r = np.random.Generator(np.random.PCG64(self.plan["eval_seed"]))
        out = []
        for _ in range(2):
            S = {
                "t": float(r.uniform(0, 1)),
                "t2": float(r.uniform(0, 1)),
                "q": s.q0 + 0.3 * r.normal(size=s.nq),
                "q2": s.q0 + 0.3 * r.normal(size=s.nq),
                "u": r.normal(size=s.nu),
                "u2": r.normal(size=s.nu),
                "ud": r.normal(size=s.nu),
                "la_g": r.normal(size=s.nla_g),
                "mu_g": r.normal(size=s.nla_g),
                "la_gamma": r.normal(size=s.nla_gamma),
                "la_c": r.normal(size=s.nla_c),
                "la_N": r.normal(size=s.nla_N),
                "la_F": r.normal(size=s.nla_F),
            }
            out.append(S)
        return out

    def evaluate(self, k, collect=None):
        lay = self.check_layout(k)
        if lay is None:
            return
        own, totals, conn = lay
        s = self.system
        cs = [s.origin] + [self.items[i] for i in self.present]
        R = Ref(cs, conn, own, totals)
        held = {}  # results of the first state, kept by the caller while the system is evaluated elsewhere
        for si, S in enumerate(self.states()):
            for name, (sysf, reff) in _methods(S).items():
                err_s = err_r = None
                with warnings.catch_warnings():
                    warnings.simplefilter("ignore")
                    s.reset()
                    try:
                        raw = sysf(s)
                        a = np.asarray(raw, dtype=float)
                        if si == 0 and isinstance(raw, np.ndarray):
                            held[name] = (raw, raw.copy())
                    except Exception as e:
                        err_s = e
                    s.reset()
                    try:
                        b = np.asarray(reff(R), dtype=float)
                    except Exception as e:
                        err_r = e
                if err_s is not None and err_r is not None:
                    self.out["probes"]["method_unavailable_both"] += 1
                    continue
                if err_s is not None:
                    self.bad("scatter_mismatch", name, f"op {k}: System.{name} raised {type(err_s).__name__}: {err_s} although every contribution's local method evaluates")
                    return
                if err_r is not None:
                    raise RuntimeError(f"reference for {name} failed: {err_r!r}") from err_r
                self.out["probes"]["methods_compared"] += 1
                if collect is not None:
                    collect[(si, name)] = a.copy()
                self.log.ev("eval", k, si, name, a)
                tol = 1e-12 * (1 + np.max(np.abs(b)) if b.size else 1)
                if a.shape != b.shape or (a.size and np.max(np.abs(a - b)) > tol):
                    d = "shape" if a.shape != b.shape else float(np.max(np.abs(a - b)))
                    classes = sorted({type(c).__name__ for c in cs})
                    self.bad("scatter_mismatch", name, f"op {k}: System.{name} differs from the dense scatter of the contributions' local {name} by {d} (state {si}; contributions {classes})")
                    return
            if si == 0:
                self.complex_step(k, R, S)
                if self.out["violations"]:
                    return
        # a result handed out earlier still is the scatter at ITS state after the system was evaluated at another one
        # (finite differences, collected histories)
        for name, (raw, kept) in held.items():
            self.out["probes"]["held_result_rechecked"] += 1
            if raw.shape != kept.shape or not np.array_equal(raw, kept, equal_nan=True):
                self.bad(
                    "result_aliased",
                    name,
                    f"op {k}: the array returned by System.{name} at one state changed while the system was evaluated at another state (max change {float(np.max(np.abs(raw - kept))) if raw.shape == kept.shape and raw.size else 'shape'}): results of different evaluations share storage",
                )
                return

    def complex_step(self, k, R, S):
        """The library offers complex-step differentiation ("cs"): a kinematic / force evaluation handed complex
        velocities must carry the imaginary part through the scatter (result type follows the arguments)."""
        s = self.system
        t, q = S["t"], S["q"]
        uc = S["u"] + 1j * 1e-3 * S["ud"]
        with warnings.catch_warnings():
            warnings.simplefilter("ignore")
            for name, sysf, fam, dim, loc in (
                ("q_dot", lambda: s.q_dot(t, q, uc), "q_dot", "nq", lambda c: c.q_dot(t, q[R.q(c)], uc[R.u(c)])),
            ):
                try:
                    ref = np.zeros(R.n[dim], dtype=complex)
                    for c in R.cs:
                        if _has(c, fam):
                            ref[R.d(c, dim)] = np.asarray(loc(c), dtype=complex)
                except Exception:
                    self.out["probes"]["complex_step_reference_unavailable"] += 1
                    continue
                try:
                    got = np.asarray(sysf())
                except Exception as e:
                    self.bad("scatter_mismatch", name + "/complex_step", f"op {k}: System.{name} raised {type(e).__name__}: {e} for complex velocities although every contribution's local method evaluates")
                    return
                self.out["probes"]["complex_step_compared"] += 1
                tol = 1e-12 * (1 + float(np.max(np.abs(ref))) if ref.size else 1)
                if got.shape != ref.shape or (ref.size and float(np.max(np.abs(got - ref))) > tol):
                    self.bad(
                        "scatter_mismatch",
                        name + "/complex_step",
                        f"op {k}: System.{name} with complex velocities (complex-step differentiation) differs from the scatter of the contributions' local {name}: imaginary part max {float(np.max(np.abs(np.imag(got)))) if got.size else 0.0:.3e} vs {float(np.max(np.abs(np.imag(ref)))) if ref.size else 0.0:.3e} (result dtype {np.asarray(got).dtype})",
                    )
                    return

    def snapshot_layout(self):
        s = self.system
        snap = {d: getattr(s, d) for d in DIMS}
        snap["q0"] = s.q0.copy()
        snap["u0"] = s.u0.copy()
        for c in s.contributions:
            for nm in list(DOFNAME.values()) + ["qDOF", "uDOF"]:
                if hasattr(c, nm):
                    snap[(id(c), nm)] = np.asarray(getattr(c, nm)).copy()
        return snap

    def do_assemble(self, k, again=False):
        from cardillo.solver import SolverOptions

        s = self.system
        opts = SolverOptions(compute_consistent_initial_conditions=False)
        before = None
        if again:
            before_eval = {}
            self.evaluate(k, collect=before_eval)
            if self.out["violations"]:
                return
            before = (self.snapshot_layout(), before_eval)
        try:
            with contextlib.redirect_stdout(io.StringIO()), warnings.catch_warnings():
                warnings.simplefilter("ignore")
                s.assemble(options=opts)
        except Exception as e:
            classes = sorted({type(self.items[i]).__name__ for i in self.present})
            if self.assembled is not None:
                culprit = "?"
                for i in self.present:
                    c = self.items[i]
                    extra = [d for d in ("nq", "nu") if hasattr(c, d) and d not in self.pool.dims[i]]
                    if extra:
                        culprit = type(c).__name__
                self.bad("reassemble_crash", culprit, f"op {k}: assemble() on an already assembled system raised {type(e).__name__}: {e} (contributions {classes})")
            else:
                self.bad("reassemble_crash", "first_assemble", f"op {k}: first assemble() raised {type(e).__name__}: {e} (contributions {classes})")
            return
        self.assembled = list(self.present)
        self.classes_assembled |= {type(self.items[i]).__name__ for i in self.present}
        self.max_assembled = max(self.max_assembled, len(self.present))
        if any(isinstance(self.items[i], (FakeBody, FakeCoupler)) for i in self.present):
            self.out["probes"]["fake_present"] += 1
        if any(type(self.items[i]).__name__ == "CosseratRod" for i in self.present):
            self.out["probes"]["rod_present"] += 1
        if self.check_layout(k) is None:
            return
        if again and before is not None:
            self.out["probes"]["assemble_again"] += 1
            snap, ev = before
            now = self.snapshot_layout()
            for key, val in snap.items():
                same = np.array_equal(val, now.get(key)) if isinstance(val, np.ndarray) else val == now.get(key)
                if not same:
                    self.bad("reassemble_changed", str(key[1] if isinstance(key, tuple) else key), f"op {k}: second assemble() changed {key[1] if isinstance(key, tuple) else key}")
                    return
            after = {}
            self.evaluate(k, collect=after)
            if self.out["violations"]:
                return
            for key, val in ev.items():
                if key in after and not np.array_equal(val, after[key]):
                    self.bad("reassemble_changed", key[1], f"op {k}: System.{key[1]} changed by {float(np.max(np.abs(val - after[key])))} after a second assemble() with nothing changed")
                    return

    def run(self):
        s = self.system
        out = self.out
        for k, op in enumerate(self.plan["ops"]):
            if out["violations"]:
                break
            o = op["op"]
            done = o
            if o == "add_all":
                for i in range(len(self.items)):
                    if self.addable(i):
                        with contextlib.redirect_stdout(io.StringIO()):
                            s.add(self.items[i])
                        self.present.append(i)
            elif o in ("add", "extend"):
                chosen = []
                for n in op["i"]:
                    i = self.pick(n, lambda j: self.addable(j) and j not in chosen and self.pool.deps[j] <= set(self.present))
                    if i is not None:
                        chosen.append(i)
                if not chosen:
                    continue
                names_now = {c.name for c in s.contributions}
                if any(self.items[i].name in names_now for i in chosen) or len({self.items[i].name for i in chosen}) < len(chosen):
                    out["probes"]["name_collision_generated"] += 1
                with contextlib.redirect_stdout(io.StringIO()):
                    if o == "add":
                        s.add(*[self.items[i] for i in chosen])
                    else:
                        s.extend([self.items[i] for i in chosen])
                self.present += chosen
            elif o == "remove":
                i = self.pick(op["i"], self.removable)
                if i is None:
                    continue
                s.remove(self.items[i])
                self.present.remove(i)
            elif o == "pop":
                i = self.pick(op["i"], self.removable)
                if i is None:
                    continue
                s.pop(1 + self.present.index(i))
                self.present.remove(i)
            elif o == "readd":
                i = self.pick(op["i"], self.removable)
                if i is None:
                    continue
                s.remove(self.items[i])
                self.present.remove(i)
                self.check_registry(k, "remove")
                with contextlib.redirect_stdout(io.StringIO()):
                    s.add(self.items[i])
                self.present.append(i)
            elif o == "add_twice":
                i = self.pick(op["i"], lambda j: j in self.present)
                if i is None:
                    continue
                try:
                    with contextlib.redirect_stdout(io.StringIO()):
                        s.add(self.items[i])
                except ValueError:
                    out["probes"]["add_twice_rejected"] += 1
                else:
                    self.bad("registry_stale", "add_twice", f"op {k}: adding a contribution that is already part of the system was accepted")
            elif o == "remove_absent":
                i = self.pick(op["i"], lambda j: j not in self.present)
                if i is None:
                    continue
                try:
                    s.remove(self.items[i])
                except ValueError:
                    out["probes"]["remove_absent_rejected"] += 1
                else:
                    self.bad("registry_stale", "remove_absent", f"op {k}: removing a contribution that is not part of the system was accepted")
            elif o == "assemble":
                self.do_assemble(k)
            elif o == "assemble_again":
                if self.assembled != self.present:
                    self.do_assemble(k)
                if not out["violations"]:
                    self.do_assemble(k, again=True)
            elif o == "evaluate":
                if self.assembled != self.present:
                    continue
                self.evaluate(k)
                self.did_eval = True
            out["probes"]["op_" + done] += 1
            self.kinds.append(done)
            self.log.ev("op", k, done, list(self.present))
            if not out["violations"]:
                self.check_registry(k, done)


def execute(plan, out, log):
    m = Machine(plan, out, log)
    m.run()
    out["steps"] = len(plan["ops"])
    out["nontrivial"] = m.did_eval and m.max_assembled >= 3
    collapsed = [k for i, k in enumerate(m.kinds) if i == 0 or m.kinds[i - 1] != k][:10]
    out["abstract"] = repr((collapsed, sorted(m.classes_assembled)))


# ------------------------------------------------------------------ shrinking
def shrink(plan):
    for c in ddmin_list(plan["ops"]):
        yield dict(plan, ops=c)
    if plan["fakes"]:
        # drop couplers first (nothing depends on them)
        for i in range(len(plan["fakes"]) - 1, -1, -1):
            if plan["fakes"][i]["fake"] == "coupler":
                yield dict(plan, fakes=plan["fakes"][:i] + plan["fakes"][i + 1 :])
    sc = plan["scene"]
    for key in ("contacts", "forces", "actuators", "laws"):
        for i in range(len(sc.get(key, [])) - 1, -1, -1):
            if key == "laws" and False:
                continue
            new = dict(sc)
            new[key] = sc[key][:i] + sc[key][i + 1 :]
            yield dict(plan, scene=new)
    if sc.get("gravity") is not None:
        yield dict(plan, scene=dict(sc, gravity=None))
    if any(n is not None for n in plan["names"]):
        for i, n in enumerate(plan["names"]):
            if n is not None:
                yield dict(plan, names=plan["names"][:i] + [None] + plan["names"][i + 1 :])
