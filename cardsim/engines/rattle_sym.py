"""C19 - RATTLE is second order, drift-free and reversible on conservative systems (DESIGN 5.6)."""

import numpy as np

from ..core import violation, Discard
from ..gen_scenes import gen_chain_scene
from ..scenes import build
from ..seams import Sim
from ..session import project_velocities, run_solver, require_regular, body_states
from .restart import tracked_angles

PROPERTY = "C19"
LEVEL = "exploration"
BUDGET = {"quick": 160, "thorough": 3000}
CHUNK = 1
RUN_TIMEOUT_S = 1500
MAX_DISCARD_FRACTION = 0.5
RULE = (
    "seeded conservative scenes (gravity, force-form springs on two-point interactions and revolute joints, point-mass and "
    "rigid-body pendula / chains / trees, loops closed by a spherical joint; no dampers, actuators, contacts, moving frames), "
    "Newton tolerance 1e-11. Histories: (reverse) advance N steps, negate all velocities - new system built by the harness at "
    "the reached state, or deepcopy + set_new_initial_state - advance N steps, optionally with a crash/restart in the first "
    "leg: must return to (q0, -u0); (order) same scene at dt and dt/2 over the same horizon: energy-error ratio in [2.8, 5.7]; "
    "(drift) long horizon: no secular growth of the energy error. distinct = (mode, variant, joint multiset, has spring, "
    "has loop, body kinds); non-trivial = at least one bilateral constraint and a trajectory that actually moves"
)
RULE += " Half of the springs are in compliance form; a quarter of the reverse histories use very fine steps (1e-5..3e-4); one family uses a user-defined contribution with configuration-dependent mass matrix (particle in polar coordinates on an off-centre circular guide, cardsim/custom.py)."
COMPONENTS = {
    "real": ["Rattle", "fsolve", "System (assemble / deepcopy / set_new_initial_state)", "joints, springs, gravity"],
    "stub": ["tqdm -> SimProgress"],
    "model": ["time-reversal symmetry, Richardson ratio of the energy error, bounded energy error; kinetic energy 0.5 u^T M u and potential energy from System.E_pot"],
}
ASSUMPTIONS = [
    "reversibility tolerance 1e-7*(1+scale) (Newton tolerance 1e-11; a non-symmetric scheme misses by O(dt^2))",
    "order ratio only asserted when the coarse energy error exceeds 1e-8*(1+|E|) (else round-off dominates; counted)",
    "set_new_initial_state variant is not used with springs on revolute joints (their tracked angle is subject to the open C24 turn-count finding)",
]
REQUIRED_PROBES = {"quick": ["configuration_dependent_mass", "reverse_via_build", "reverse_via_set_new_initial_state", "order_evaluated", "drift_evaluated", "restart_interleaved"]}


def tight():
    return {"newton_atol": 1e-11, "newton_rtol": 1e-11, "newton_max_iter": 80}


def gen_custom(rng, tier, index):
    """A user-defined contribution with a configuration-dependent mass matrix (particle in polar coordinates on an
    off-centre circular guide, spring to the origin, gravity): the scheme has to take M at the right configuration
    in each stage."""
    R = float(rng.uniform(0.6, 1.5))
    c = rng.normal(size=2)
    c *= float(rng.uniform(0.2, 0.6)) * R / np.linalg.norm(c)  # the origin stays inside the circle: r >= 0.4 R
    polar = {
        "m": float(rng.uniform(0.3, 3.0)),
        "k": float(rng.uniform(0.0, 30.0)),
        "l0": float(rng.uniform(0.3, 1.5)),
        "grav": float(rng.choice([0.0, 9.81, rng.uniform(1, 10)])),
        "c": c.tolist(),
        "R": R,
        "theta": float(rng.uniform(0, 2 * np.pi)),
        "speed": float(rng.choice([0.0, rng.uniform(0.3, 3.0), rng.uniform(0.3, 3.0)])),
    }
    if rng.random() < 0.5:
        # a conservative actuator whose generalized force direction depends on the configuration (spring to an anchor outside the guide)
        d = rng.normal(size=2)
        polar["actuator"] = {"anchor": (c + d / np.linalg.norm(d) * R * float(rng.uniform(1.5, 3.0))).tolist(), "k": float(rng.uniform(2, 30)), "l0": float(rng.uniform(0.2, 1.0) * R)}
    mode = "order" if rng.random() < 0.4 else "reverse"
    plan = {"custom": "polar", "polar": polar, "mode": mode, "dt": float(10 ** rng.uniform(-2.6, -2.0)), "N": int(rng.integers(30, 160)), "knobs": {}}
    if mode == "reverse":
        plan["via"] = str(rng.choice(["build", "set_new_initial_state"]))
    else:
        plan["dt"] = float(10 ** rng.uniform(-2.3, -1.8))
        plan["N"] = int(rng.integers(40, 120))
    if rng.random() < 0.3:
        plan["knobs"]["reuse_lu_decomposition"] = False
    return plan


def gen(rng, tier, index):
    if index % 8 == 7:
        return gen_custom(rng, tier, index)
    mode = ["reverse", "reverse", "order", "reverse", "drift", "reverse", "order", "reverse"][index % 8]
    # bounded motion (compact configuration space) for the long-horizon clause: pendulum-like joints only
    joints = ["revolute", "spherical", "fixed_distance", "rigid"] if mode == "drift" else None

    def ok(sc):
        if not sc["joints"]:
            return False
        if mode == "drift":
            attached = {j["b"][1] for j in sc["joints"]}
            return attached == set(range(len(sc["bodies"])))
        return True

    # the long-horizon clause needs many periods inside the horizon: one body on a pendulum-like joint
    nb = (lambda: 1) if mode == "drift" else (lambda: int(rng.integers(1, 4)))
    scene = gen_chain_scene(rng, nbodies=nb(), joints=joints, conservative=True, allow_frames=False, speed=float(rng.uniform(0.5, 2.0)))
    while not ok(scene):
        scene = gen_chain_scene(rng, nbodies=nb(), joints=joints, conservative=True, allow_frames=False)
    if mode == "drift":
        scene["gravity"] = [0.0, 0.0, -9.81]
    if scene.get("gravity") is None and not scene["laws"]:
        scene["gravity"] = [0.0, 0.0, -9.81]
    # an elastic spring is conservative in either formulation: force form, or compliance form (its force then enters
    # through W_c la_c, whose direction changes with the configuration)
    for lw in scene["laws"]:
        if lw["type"] == "spring" and rng.random() < 0.5:
            lw["compliance"] = True
    if rng.random() < 0.3:
        # released from rest (the most common way to start a pendulum)
        for b in scene["bodies"]:
            b["v"] = [0.0, 0.0, 0.0]
            if b["kind"] == "rigid":
                b["w"] = [0.0, 0.0, 0.0]
        if scene.get("gravity") is None:
            scene["gravity"] = [0.0, 0.0, -9.81]
        scene["from_rest"] = True
    dt = float(10 ** rng.uniform(-2.6, -2.0))
    plan = {"scene": scene, "mode": mode, "dt": dt}
    if mode == "reverse":
        plan["N"] = int(rng.integers(30, 160))
        if rng.random() < 0.35:
            # step sizes are the user's choice over many decades: very fine steps (slow change per step)
            plan["dt"] = float(10 ** rng.uniform(-5.0, -3.5))
            plan["N"] = int(rng.integers(20, 80))
        plan["via"] = str(rng.choice(["build", "set_new_initial_state"]))
        plan["crash_at"] = int(rng.integers(1, plan["N"])) if rng.random() < 0.3 else None
        if plan["via"] == "set_new_initial_state":
            scene["laws"] = [l for l in scene["laws"] if l["on"][0] != "joint"]
    elif mode == "order":
        plan["N"] = int(rng.integers(40, 120))
        plan["dt"] = float(10 ** rng.uniform(-2.3, -1.8))
    else:
        plan["N"] = 800 if tier == "quick" else int(rng.choice([1600, 4000]))
        plan["dt"] = float(rng.uniform(0.006, 0.012))
    # buggified legal knobs (F6): the scheme's properties must not depend on how the Newton iteration is organised
    knobs = {}
    if rng.random() < 0.3:
        knobs["reuse_lu_decomposition"] = False
    if mode != "drift" and rng.random() < 0.2:
        knobs["numerical_jacobian_method"] = str(rng.choice(["2-point", "3-point"]))
        plan["N"] = min(plan["N"], 50)
        if plan.get("crash_at"):
            plan["crash_at"] = min(plan["crash_at"], plan["N"] - 1)
    plan["knobs"] = knobs
    return plan


def spec_for(plan, dt, steps):
    o = tight()
    o.update(plan.get("knobs") or {})
    return {"name": "Rattle", "dt": dt, "steps": steps, "options": o, "kwargs": {}}


def energies(B, sol):
    s = B.system
    E = []
    s.reset()  # tracked joint angles are history dependent: follow the trajectory from its start
    for t, q, u in zip(sol.t, sol.q, sol.u):
        M = s.M(t, q)
        E.append(0.5 * u @ (M @ u) + s.E_pot(t, q))
    return np.array(E, dtype=float)


def run_leg(B, spec, sim):
    R = run_solver(B, spec, sim, record=False)
    if R.exc is not None or sim.failed_instances() or len(R.sol.t) < spec["steps"] + 1:
        raise Discard(f"solver_failed:{type(R.exc).__name__ if R.exc else 'nonconvergence'}")
    if not (np.all(np.isfinite(R.sol.q)) and np.all(np.isfinite(R.sol.u))):
        raise Discard("nonfinite")
    return R.sol


class _Bx:
    contacts = ()


def execute_custom(plan, out, log):
    from ..custom import build_polar

    mode, dt, N = plan["mode"], plan["dt"], plan["N"]
    sim = Sim(log)
    sim.max_decisions = 400000
    with sim.installed():
        try:
            system, _, _ = build_polar(plan["polar"])
        except (AssertionError, RuntimeError, ValueError, np.linalg.LinAlgError) as e:
            raise Discard(f"assemble:{type(e).__name__}")
        B = _Bx()
        B.system = system
        q0, u0 = system.q0.copy(), system.u0.copy()
        scale = 1 + float(np.max(np.abs(q0))) + float(np.max(np.abs(u0)))
        out["probes"]["configuration_dependent_mass"] += 1
        if plan["polar"].get("actuator"):
            out["probes"]["configuration_dependent_actuator_direction"] += 1
        if mode == "reverse":
            pristine = system.deepcopy()
            sol_f = run_leg(B, spec_for(plan, dt, N), sim)
            qN, uN = np.array(sol_f.q[-1]), np.array(sol_f.u[-1])
            moved = float(np.max(np.abs(qN - q0)))
            Br = _Bx()
            if plan["via"] == "build":
                Br.system = build_polar(plan["polar"], state={"q": qN, "u": -uN})[0]
            else:
                try:
                    pristine.set_new_initial_state(qN, -uN, t0=0.0)
                except AssertionError:
                    raise Discard("reversed_state_rejected")
                Br.system = pristine
            sol_r = run_leg(Br, spec_for(plan, dt, N), sim)
            eq = float(np.max(np.abs(np.array(sol_r.q[-1]) - q0)))
            eu = float(np.max(np.abs(np.array(sol_r.u[-1]) + u0)))
            out["steps"], out["sim_time"] = 2 * N, 2 * N * dt
            tol = 1e-7 * scale
            if eq > tol or eu > 10 * tol:
                out["violations"].append(
                    violation("not_reversible", f"{plan['via']}/configuration_dependent_mass", f"forward {N} steps (dt={dt:.2e}), velocities reversed, {N} steps back: |q - q0|={eq:.3e}, |u + u0|={eu:.3e} (tol {tol:.1e}; the state moved by {moved:.2e} in between)")
                )
                return
            nontrivial = moved > 1e-3
        else:
            sol1 = run_leg(B, spec_for(plan, dt, N), sim)
            B2 = _Bx()
            B2.system = build_polar(plan["polar"])[0]
            sol2 = run_leg(B2, spec_for(plan, dt / 2, 2 * N), sim)
            E1, E2 = energies(B, sol1), energies(B2, sol2)
            e1, e2 = float(np.max(np.abs(E1 - E1[0]))), float(np.max(np.abs(E2 - E2[0])))
            Es = 1 + abs(E1[0])
            out["steps"], out["sim_time"] = 3 * N, 2 * N * dt
            if e1 >= 1e-8 * Es and e2 > 0:
                out["probes"]["order_evaluated"] += 1
                ratio = e1 / e2
                if not (2.8 <= ratio <= 5.7):
                    out["violations"].append(violation("order_ratio", "energy/configuration_dependent_mass", f"max energy error {e1:.3e} at dt={dt:.2e} and {e2:.3e} at dt/2: ratio {ratio:.2f} outside [2.8, 5.7]"))
                    return
            else:
                out["probes"]["order_roundoff_dominated"] += 1
            nontrivial = float(np.max(np.abs(np.asarray(sol1.q)[-1] - q0))) > 1e-3
    out["nontrivial"] = bool(nontrivial)
    out["abstract"] = repr(("polar", mode, plan.get("via"), plan["polar"]["grav"] == 0.0, plan["polar"]["speed"] == 0.0, tuple(sorted(plan["knobs"].items()))))


def execute(plan, out, log):
    if plan.get("custom"):
        return execute_custom(plan, out, log)
    scene = project_velocities(plan["scene"])
    mode, dt, N = plan["mode"], plan["dt"], plan["N"]
    sim = Sim(log)
    sim.max_decisions = 400000
    with sim.installed():
        try:
            B = build(scene)
        except (AssertionError, RuntimeError, ValueError, np.linalg.LinAlgError) as e:
            raise Discard(f"assemble:{type(e).__name__}")
        require_regular(B)
        s = B.system
        q0, u0 = s.q0.copy(), s.u0.copy()
        scale = 1 + float(np.max(np.abs(q0))) + float(np.max(np.abs(u0)))
        if mode == "reverse":
            pristine = s.deepcopy()
            k = plan.get("crash_at")
            if k:
                # crash/restart inside the forward leg (harness-built system at the crash state)
                sol_a = run_leg(B, spec_for(plan, dt, k), sim)
                st = body_states(B, 0.0, sol_a.q[-1], sol_a.u[-1])
                st["angle0"] = tracked_angles(B, sol_a, len(sol_a.t) - 1)
                try:
                    Bm = build(scene, state=st)
                except AssertionError as e:
                    out["violations"].append(violation("state_rejected", "restart", f"the state RATTLE reached after {k} steps (dt={dt:.2e}) on a conservative scleronomic system is rejected by assembly: {e}"))
                    return
                sol_b = run_leg(Bm, spec_for(plan, dt, N - k), sim)
                qN, uN = np.array(sol_b.q[-1]), np.array(sol_b.u[-1])
                # map the state of the rebuilt system back to the original ordering (same plan, same order)
                ang = tracked_angles(Bm, sol_b, len(sol_b.t) - 1, base=st["angle0"])
                out["probes"]["restart_interleaved"] += 1
                out["faults"]["F3_crash_restart"] += 1
                Bfwd = Bm
            else:
                sol_f = run_leg(B, spec_for(plan, dt, N), sim)
                qN, uN = np.array(sol_f.q[-1]), np.array(sol_f.u[-1])
                ang = tracked_angles(B, sol_f, len(sol_f.t) - 1)
                Bfwd = B
            moved = float(np.max(np.abs(qN - q0)))
            log.ev("forward", qN, uN)
            if plan["via"] == "build":
                st = body_states(Bfwd, 0.0, qN, -uN)
                st["angle0"] = ang
                try:
                    Br = build(scene, state=st)
                except AssertionError as e:
                    out["violations"].append(violation("state_rejected", "build", f"the velocity-reversed state RATTLE reached after {N} steps (dt={dt:.2e}) on a conservative scleronomic system is rejected by assembly: {e}"))
                    return
                out["probes"]["reverse_via_build"] += 1
            else:
                c = pristine
                try:
                    c.set_new_initial_state(qN, -uN, t0=0.0)
                except AssertionError as e:
                    out["violations"].append(violation("state_rejected", "set_new_initial_state", f"the velocity-reversed state RATTLE reached after {N} steps (dt={dt:.2e}) on a conservative scleronomic system is rejected by set_new_initial_state: {e}"))
                    return

                class _B:
                    pass

                Br = _B()
                Br.system, Br.contacts, Br.scene = c, [], B.scene
                out["probes"]["reverse_via_set_new_initial_state"] += 1
            sol_r = run_leg(Br, spec_for(plan, dt, N), sim)
            qe, ue = np.array(sol_r.q[-1]), np.array(sol_r.u[-1])
            # quaternions: compare up to sign
            eq = 0.0
            for i, b in enumerate(B.scene["bodies"]):
                dof = B.bodies[i].qDOF
                if b["kind"] == "rigid":
                    eq = max(eq, float(np.max(np.abs(qe[dof[:3]] - q0[dof[:3]]))))
                    p, p0 = qe[dof[3:]], q0[dof[3:]] / np.linalg.norm(q0[dof[3:]])
                    eq = max(eq, min(float(np.max(np.abs(p - p0))), float(np.max(np.abs(p + p0)))))
                else:
                    eq = max(eq, float(np.max(np.abs(qe[dof] - q0[dof]))))
            eu = float(np.max(np.abs(ue + u0)))
            log.ev("returned", eq, eu)
            out["steps"] = 2 * N
            out["sim_time"] = 2 * N * dt
            tol = 1e-7 * scale
            if eq > tol or eu > 10 * tol:
                out["violations"].append(
                    violation(
                        "not_reversible",
                        f"{plan['via']}{'/restart' if k else ''}",
                        f"forward {N} steps (dt={dt:.2e}), velocities reversed, {N} steps back: |q - q0|={eq:.3e}, |u + u0|={eu:.3e} (tol {tol:.1e}; the state moved by {moved:.2e} in between)",
                    )
                )
                return
            nontrivial = moved > 1e-3
        elif mode == "order":
            sol1 = run_leg(B, spec_for(plan, dt, N), sim)
            B2 = build(scene)
            sol2 = run_leg(B2, spec_for(plan, dt / 2, 2 * N), sim)
            E1, E2 = energies(B, sol1), energies(B2, sol2)
            e1, e2 = float(np.max(np.abs(E1 - E1[0]))), float(np.max(np.abs(E2 - E2[0])))
            Es = 1 + abs(E1[0])
            out["steps"] = 3 * N
            out["sim_time"] = 2 * N * dt
            log.ev("order", e1, e2)
            if e1 >= 1e-8 * Es and e2 > 0:
                out["probes"]["order_evaluated"] += 1
                ratio = e1 / e2
                if not (2.8 <= ratio <= 5.7):
                    out["violations"].append(violation("order_ratio", "energy", f"max energy error {e1:.3e} at dt={dt:.2e} and {e2:.3e} at dt/2: ratio {ratio:.2f} outside [2.8, 5.7]"))
                    return
            else:
                out["probes"]["order_roundoff_dominated"] += 1
            nontrivial = float(np.max(np.abs(np.asarray(sol1.q)[-1] - q0))) > 1e-3
        else:
            sol = run_leg(B, spec_for(plan, dt, N), sim)
            E = energies(B, sol)
            err = np.abs(E - E[0])
            Es = 1 + abs(E[0])
            half = len(err) // 2
            first, last = float(np.max(err[:half])), float(np.max(err[half:]))
            tt = np.asarray(sol.t, dtype=float)
            slope, icpt = np.polyfit(tt, E, 1)
            shift = abs(float(slope)) * float(tt[-1] - tt[0])  # secular change over the horizon
            amp = float(np.max(np.abs(E - (slope * tt + icpt))))  # oscillation about the trend
            out["steps"] = N
            out["sim_time"] = N * dt
            out["probes"]["drift_evaluated"] += 1
            log.ev("drift", first, last, shift)
            floor = 1e-9 * Es
            if last > 1.5 * first + floor and shift > 3.0 * amp + floor:
                out["violations"].append(
                    violation("energy_drift", "secular", f"energy error grows from {first:.3e} (first half) to {last:.3e} (second half of {N} steps, dt={dt:.2e}); linear trend over the horizon {shift:.3e} vs. oscillation amplitude {amp:.3e}")
                )
                return
            nontrivial = float(np.max(np.abs(np.asarray(sol.q)[-1] - q0))) > 1e-3
    sc = B.scene
    out["nontrivial"] = bool(nontrivial)
    out["abstract"] = repr(
        (
            mode,
            plan.get("via"),
            bool(plan.get("crash_at")),
            tuple(sorted(j["type"] for j in sc["joints"])),
            bool(sc["laws"]),
            any(l.get("compliance") for l in sc["laws"]),
            any(j.get("loop") for j in sc["joints"]),
            tuple(sorted(b["kind"] for b in sc["bodies"])),
            bool(sc.get("from_rest")),
            tuple(sorted((plan.get("knobs") or {}).items())),
        )
    )


def shrink(plan):
    if plan.get("custom"):
        if plan["N"] > 10:
            yield dict(plan, N=max(10, plan["N"] // 2))
        return
    floor = 200 if plan["mode"] == "drift" else 10
    if plan["N"] > floor:
        yield dict(plan, N=max(floor, plan["N"] // 2), crash_at=None)
    if plan.get("crash_at"):
        yield dict(plan, crash_at=None)
    if plan.get("knobs"):
        for k in plan["knobs"]:
            yield dict(plan, knobs={a: b for a, b in plan["knobs"].items() if a != k})
    sc = plan["scene"]
    for i in range(len(sc.get("laws", [])) - 1, -1, -1):
        yield dict(plan, scene=dict(sc, laws=sc["laws"][:i] + sc["laws"][i + 1 :]))
