"""C29 - VTK export writes what was simulated (DESIGN 5.13).

Export / read-back through the file seam: real files in a private temp
directory whose initial contents are part of the plan (fault F5), read back
with VTK's own reader and compared with geometry recomputed by the harness
from the Solution at each exported frame's time.
"""

import os
import shutil
import tempfile
from pathlib import Path
from xml.dom import minidom

import numpy as np

from ..core import violation, Discard
from ..gen_scenes import gen_contact_scene, gen_body
from ..scenes import build, FrameMotion, scalar_fun
from ..seams import Sim
from ..session import gen_solver, run_solver
from .. import rot
from .statics import build_cantilever
from ..rods import gen_rod_spec

PROPERTY = "C29"
LEVEL = "exploration"
BUDGET = {"quick": 160, "thorough": 6000}
CHUNK = 1
RUN_TIMEOUT_S = 1500
MAX_DISCARD_FRACTION = 0.4
PRELOAD = ["vtk", "vtk.util.numpy_support"]
RULE = (
    "seeded sessions: (a) 1..3 rigid bodies / point masses with spin over a plane (sphere-plane contacts), fixed and moving "
    "frames, forces / body-fixed forces / moments with offsets and time dependence, a spring on a two-point interaction, short "
    "Moreau / RATTLE / BackwardEuler run; (b) a clamped Cosserat rod (any formulation) solved statically over a few load steps "
    "and exported at 'centerline + directors' level. Export ops with random fps, overwrite flag, pre-existing folder, the same "
    "contribution exported twice into one folder, single contributions, lists and System.export. Read-back oracle: the .pvd "
    "lists existing files, one per exported frame, time-ordered with the frame times; every exported frame is an instant of "
    "the solution; points / vector arrays of every .vtu equal the geometry recomputed by the harness from the solution at that "
    "instant, right after the export and again after all later exports into the same folder. distinct = (session kind, exported contribution classes, fps bucket, overwrite, pre-existing folder, repeated "
    "export); non-trivial = at least one .vtu compared with >= 2 frames"
)
RULE += " A quarter of the multibody runs export a solution whose rigid-body quaternions were rescaled row by row (non-unit quaternions are legal coordinates)."
RULE += " One run in seven is a standstill (all coordinates constant, prescribed frames keep moving): consecutive frames with bit-identical q."
RULE += " One run in 53 exports a long animation (1001-1150 frames of one contribution, every instant a frame); file names include ones that are prefixes of each other (a, a_0) and ones with brackets."
RULE += " Rigid bodies may carry a visual mesh (box, offset / rotated in the body frame; mesh export and base export); time origins are arbitrary (t0 up to 1e5); fault F5b: a contribution whose export raises at its k-th frame, after which later exports on the same Export object must be unaffected."
COMPONENTS = {
    "real": ["cardillo.visualization.Export / make_ugrid", "export() of PointMass, RigidBody, Frame, Force, B_Force, Moment, B_Moment, TwoPointInteraction, Spring, Sphere2Plane, Cosserat rods", "System.export", "VTK writer and reader, real files"],
    "stub": ["tqdm -> SimProgress"],
    "model": ["independent geometry formulas of the harness (rigid-body kinematics, frame motion, force application points, contact points); rods re-evaluated through their public r_OP / A_IB"],
}
ASSUMPTIONS = ["points are stored as Float32 by vtkPoints: 1e-6 relative; data arrays 1e-9 relative", "which instants are exported (fps sub-sampling) is the exporter's choice; they must be instants of the solution, in order"]
REQUIRED_PROBES = {"quick": ["vtu_compared", "more_than_1000_frames", "preexisting_folder", "exported_twice", "system_export", "rod_exported", "moving_frame_exported", "contact_exported"]}


def gen(rng, tier, index):
    kind = "rod" if index % 5 == 4 else "multibody"
    plan = {"kind": kind, "fps": float(rng.choice([5, 20, 50, 200, 1000])), "overwrite": bool(rng.random() < 0.5), "preexisting": bool(rng.random() < 0.4)}
    if kind == "rod":
        plan["rod"] = gen_rod_spec(rng)
        L = plan["rod"]["L"]
        plan["force"] = (rng.normal(size=3) * 0.5 * min(plan["rod"]["Fi"]) / L**2).tolist()
        plan["moment"] = (rng.normal(size=3) * 0.5 * min(plan["rod"]["Fi"]) / L).tolist()
        plan["R"], plan["r"] = rot.rand_quat(rng).tolist(), rng.uniform(-1, 1, 3).tolist()
        plan["n_load_steps"] = int(rng.integers(1, 6))
        plan["tol"] = 1e-8
        plan["num_per_cell"] = str(rng.choice(["Auto", "3", "4"]))
        if rng.random() < 0.5:
            plan["lead_body"] = {"m": float(rng.uniform(0.5, 2)), "theta": rng.uniform(0.1, 0.5, 3).tolist(), "offset": rng.uniform(-0.5, 0.5, 3).tolist()}
        plan["ops"] = [{"what": "rod"}] + ([{"what": "rod"}] if rng.random() < 0.3 else [])
        if rng.random() < 0.3:
            # fault: an export that aborts part-way (its contribution raises at frame `at`), then business as usual
            plan["ops"].insert(int(rng.integers(len(plan["ops"]))), {"what": "failing:rod", "at": int(rng.integers(0, 4))})
        return plan
    scene = gen_contact_scene(rng, nspheres=int(rng.integers(1, 4)), allow_s2s=False)
    for c in scene["contacts"][:]:
        if rot.quat_to_mat(c["plane"]["p"])[2, 2] < 0.5:
            scene["contacts"].remove(c)  # keep the ground plane only
    nb = len(scene["bodies"])
    # frames
    if rng.random() < 0.7:
        motion = {"amp": rng.uniform(-0.3, 0.3, 3).tolist(), "w": float(rng.uniform(1, 6)), "axis": rng.normal(size=3).tolist(), "alpha": float(rng.uniform(0, 0.8))} if rng.random() < 0.7 else None
        if motion is not None:
            style = rng.random()
            if style < 0.25:
                motion["amp"] = [0.0, 0.0, 0.0]  # rotating about a fixed point (constant r_OP, callable A_IB)
                motion["alpha"] = float(rng.uniform(0.2, 0.8))
            elif style < 0.5:
                motion["alpha"] = 0.0  # translating only
        scene["frames"].append({"r": rng.uniform(-1, 1, 3).tolist(), "p": rot.rand_quat(rng).tolist(), "motion": motion})
    # forces
    for _ in range(int(rng.integers(0, 3))):
        b = int(rng.integers(nb))
        ty = str(rng.choice(["force", "b_force", "moment", "b_moment"])) if scene["bodies"][b]["kind"] == "rigid" else "force"
        scene["forces"].append({"type": ty, "body": b, "vec": rng.normal(size=3).tolist(), "rB": rng.uniform(-0.2, 0.2, 3).tolist(), "time": str(rng.choice(["const", "sin", "ramp"])), "w": float(rng.uniform(1, 5))})
    # spring to the origin (interaction added to the system so that it is exportable)
    if rng.random() < 0.5:
        b = int(rng.integers(nb))
        rb = [0.0, 0.0, 0.0] if scene["bodies"][b]["kind"] == "point" else rng.uniform(-0.1, 0.1, 3).tolist()
        scene["tpis"].append({"a": "origin", "b": ["body", b], "ra": [0, 0, 0], "rb": rb, "add": True})
        scene["laws"].append({"type": "spring", "on": ["tpi", 0], "k": float(rng.uniform(1, 10)), "l_ref": None, "compliance": False})
    for b in scene["bodies"]:
        if b["kind"] == "rigid" and rng.random() < 0.6:
            b["mesh"] = {"dims": rng.uniform(0.1, 0.6, 3).tolist(), "offset": (rng.uniform(-0.2, 0.2, 3) * float(rng.choice([0.0, 1.0]))).tolist(), "A": rot.rand_quat(rng).tolist() if rng.random() < 0.5 else None}
    plan["scene"] = scene
    name = str(rng.choice(["Moreau", "Rattle", "BackwardEuler"]))
    steps = int(rng.integers(3, 60))
    dt = float(10 ** rng.uniform(-2.7, -1.7))
    plan["solver"] = gen_solver(rng, name, steps, dt, tight=False, buggify=False, contacts=True)
    targets = [f"body{i}" for i in range(nb)] + [f"frame{k}" for k in range(len(scene["frames"]))] + [f"force{k}" for k in range(len(scene["forces"]))]
    targets += [f"contact{k}" for k in range(len(scene["contacts"]))] + [f"tpi{k}" for k in range(len(scene["tpis"]))] + [f"law{k}" for k in range(len(scene["laws"]))]
    ops = []
    for _ in range(int(rng.integers(1, 5))):
        x = rng.random()
        if x < 0.15:
            ops.append({"what": "system"})
        elif x < 0.3 and scene["contacts"]:
            ops.append({"what": "list:contacts"})
        elif x < 0.4:
            ops.append({"what": "list:bodies_same_kind"})
        else:
            ops.append({"what": targets[int(rng.integers(len(targets)))], "file_name": None if rng.random() < 0.6 else str(rng.choice(["a", "b", "v1.2", "ball_r0.5", "a_0", "ball[1]"]))})
            w = ops[-1]["what"]
            if w.startswith("body") and scene["bodies"][int(w[4:])].get("mesh") and rng.random() < 0.3:
                ops[-1]["base_export"] = True  # the point-like export of the underlying rigid body instead of its mesh
    if rng.random() < 0.4 and ops:
        ops.append(dict(ops[0]))  # the same thing twice into one folder
    if rng.random() < 0.3:
        # fault: an export that aborts part-way (its contribution raises at frame `at`), then business as usual
        ops.insert(int(rng.integers(len(ops))), {"what": "failing:" + targets[int(rng.integers(len(targets)))], "at": int(rng.integers(0, 4))})
    plan["ops"] = ops
    # the time origin is arbitrary: continuation runs start late (time stamps with many digits before the point)
    x = rng.random()
    if x < 0.2:
        scene["t0"] = float(np.round(rng.uniform(1.0, 60.0), 3))
    elif x < 0.4:
        scene["t0"] = float(rng.choice([1000.0, 20000.0, 123456.0]) + np.round(rng.uniform(0, 1), 2))
    if index % 7 == 5:
        # everything with coordinates stands still (no gravity, no loads, no initial velocities): consecutive frames have
        # bit-identical q, while prescribed frames keep moving and time goes on
        for b in scene["bodies"]:
            b["v"] = [0.0, 0.0, 0.0]
            if b["kind"] == "rigid":
                b["w"] = [0.0, 0.0, 0.0]
        scene["gravity"] = [0.0, 0.0, 0.0]
        scene["forces"], scene["tpis"], scene["laws"] = [], [], []
        nfr = len(scene["frames"])
        plan["ops"] = [op for op in plan["ops"] if not any(op["what"].replace("failing:", "").startswith(k) for k in ("force", "tpi", "law"))] + [{"what": f"frame{k}", "file_name": None} for k in range(nfr)]
        if not plan["ops"]:
            plan["ops"] = [{"what": "body0", "file_name": None}]
        plan["standstill"] = True
    if index % 4 == 3:
        # a post-processed solution (or the dense output of an adaptive back end, which is not re-normalised step by
        # step): rigid-body quaternions of non-unit length, which the bodies accept by contract
        plan["quat_scale"] = True
    if index % 53 == 11:
        # a long animation: more than a thousand exported frames of one contribution (every instant is a frame)
        plan["solver"]["steps"] = 1001 + index % 150
        plan["fps"] = 1.0e4
        plan["ops"] = [{"what": "body0", "file_name": None}]
        plan["long"] = True
    return plan


# ------------------------------------------------------------------ read back
def read_vtu(path):
    import vtk
    from vtk.util.numpy_support import vtk_to_numpy

    rd = vtk.vtkXMLUnstructuredGridReader()
    rd.SetFileName(str(path))
    rd.Update()
    ug = rd.GetOutput()
    pts = vtk_to_numpy(ug.GetPoints().GetData()).copy() if ug.GetPoints() is not None and ug.GetNumberOfPoints() else np.zeros((0, 3))
    pd, cd = {}, {}
    for data, store in ((ug.GetPointData(), pd), (ug.GetCellData(), cd)):
        for i in range(data.GetNumberOfArrays()):
            a = data.GetArray(i)
            if a is not None:
                store[data.GetArrayName(i)] = vtk_to_numpy(a).copy()
    return pts, pd, cd, ug.GetNumberOfCells()


# ------------------------------------------------------------------ expected geometry (harness formulas)
class Geo:
    def __init__(self, B):
        self.B = B
        self.sc = B.scene

    def body(self, i, q, u):
        b = self.sc["bodies"][i]
        body = self.B.bodies[i]
        qb, ub = q[body.qDOF], u[body.uDOF]
        if b["kind"] == "rigid":
            return qb[:3], rot.quat_to_mat(qb[3:]), ub[:3], ub[3:]
        return qb[:3], np.eye(3), ub[:3], np.zeros(3)

    def expect(self, what, t, q, u, sol_row, base_export=False):
        """-> (points, point_data, cell_data) expected in the file."""
        kind = "".join(c for c in what if not c.isdigit())
        idx = int("".join(c for c in what if c.isdigit()) or 0)
        sc = self.sc
        if kind == "body":
            r, A, v, w = self.body(idx, q, u)
            ms = sc["bodies"][idx].get("mesh")
            if ms and not base_export:
                # the visual mesh: box vertices placed in the body frame, moved with the body
                import trimesh

                V = np.asarray(trimesh.creation.box(extents=np.array(ms["dims"], dtype=float)).vertices, dtype=float)
                A_BM = rot.quat_to_mat(ms["A"]) if ms.get("A") is not None else np.eye(3)
                off = np.array(ms.get("offset", [0, 0, 0]), dtype=float)
                return [r + A @ (off + A_BM @ vtx) for vtx in V], {}, {}
            if sc["bodies"][idx]["kind"] == "rigid":
                return [r], {}, {"v": [v], "Omega": [A @ w], "ex": [A[:, 0]], "ey": [A[:, 1]], "ez": [A[:, 2]]}
            return [r], {}, {"v": [v]}
        if kind == "frame":
            fm = self.B.frame_motions[idx]
            A = fm.A(t)
            th_t = fm.alpha * fm._s_t(t)
            Om = fm.A0 @ fm.axis * th_t if fm.moving else np.zeros(3)
            v = fm.r_t(t) if fm.moving else np.zeros(3)
            return [fm.r(t)], {}, {"v": [v], "Omega": [Om], "ex": [A[:, 0]], "ey": [A[:, 1]], "ez": [A[:, 2]]}
        if kind == "force":
            fo = sc["forces"][idx]
            r, A, v, w = self.body(fo["body"], q, u)
            f = np.array(fo["vec"]) * scalar_fun(fo.get("time", "const"), fo.get("w", 1.0))(t)
            if fo["type"] == "force":
                return [r + A @ np.array(fo["rB"])], {}, {"F": [f]}
            if fo["type"] == "b_force":
                return [r + A @ np.array(fo["rB"])], {}, {"F": [A @ f]}
            if fo["type"] == "moment":
                return [r], {}, {"M": [f]}
            return [r], {}, {"M": [A @ f]}
        if kind in ("tpi", "law"):
            tp = sc["tpis"][sc["laws"][idx]["on"][1]] if kind == "law" else sc["tpis"][idx]
            r2, A2, _, _ = self.body(tp["b"][1], q, u)
            p1 = np.zeros(3) if tp["a"] == "origin" else None
            return [p1 + np.array(tp["ra"]), r2 + A2 @ np.array(tp["rb"])], {}, {}
        if kind == "contact":
            co = sc["contacts"][idx]
            c = self.B.contacts[idx]
            r, A, v, w = self.body(co["body"], q, u)
            center = r + A @ np.array(co.get("rB", [0, 0, 0]))
            Ap = rot.quat_to_mat(co["plane"]["p"])
            n = Ap[:, 2]
            g = n @ (center - np.array(co["plane"]["r"])) - co["radius"]
            PN = sol_row["P_N"][c.la_NDOF]
            pd = {"n": [-n, n], "P_N": [PN, PN], "t1": [-Ap[:, 0], Ap[:, 0]], "t2": [-Ap[:, 1], Ap[:, 1]], "Omega": [A @ w, np.zeros(3)]}
            pd["v_Ci"] = [v + np.cross(A @ w, -co["radius"] * n + A @ np.array(co.get("rB", [0, 0, 0]))), np.zeros(3)]
            PF = sol_row["P_F"][c.la_FDOF] if hasattr(c, "la_FDOF") else np.zeros(2)
            pd["P_F"] = [PF, PF]
            return [center - co["radius"] * n, center - n * (g + co["radius"])], pd, {"g_N": [[g]]}
        raise ValueError(what)


def check_files(out, pvd_path, label, frames, expect_fn, original):
    """pvd_path: written collection; frames: list of (t, q, u, row) the exporter chose; expect_fn(t,q,u,row)."""
    if not pvd_path.exists():
        out["violations"].append(violation("pvd_missing_file", label, f"no collection file {pvd_path.name} was written"))
        return False
    dom = minidom.parse(str(pvd_path))
    sets = dom.getElementsByTagName("DataSet")
    if len(sets) != len(frames):
        out["violations"].append(violation("frame_count", label, f"{pvd_path.name} lists {len(sets)} data sets for {len(frames)} exported frames"))
        return False
    last = -np.inf
    for k, ds in enumerate(sets):
        f = pvd_path.parent / ds.getAttribute("file")
        ts = float(ds.getAttribute("timestep"))
        t, q, u, row = frames[k]
        if not f.exists():
            out["violations"].append(violation("pvd_missing_file", label, f"{pvd_path.name} lists {f.name}, which does not exist"))
            return False
        if ts < last or abs(ts - t) > 0.6e-6 + 1e-12:
            out["violations"].append(violation("pvd_order", label, f"data set {k}: timestep {ts} (previous {last}) does not match frame time {t}"))
            return False
        last = ts
        pts, pd, cd, ncell = read_vtu(f)
        epts, epd, ecd = expect_fn(t, q, u, row)
        epts = np.asarray(epts, dtype=float).reshape(-1, 3)
        out["probes"]["vtu_compared"] += 1
        if pts.shape != epts.shape or np.max(np.abs(pts - epts)) > 1e-6 * (1 + np.max(np.abs(epts))):
            d = "shape" if pts.shape != epts.shape else float(np.max(np.abs(pts - epts)))
            out["violations"].append(violation("geometry_mismatch", f"{label}/points", f"{f.name} (frame {k}, t={t:.6f}): points differ from the geometry at that instant by {d}"))
            return False
        for store, exp, where in ((pd, epd, "point"), (cd, ecd, "cell")):
            for key, val in exp.items():
                if key not in store:
                    out["violations"].append(violation("geometry_mismatch", f"{label}/{key}", f"{f.name}: {where} array '{key}' is missing"))
                    return False
                a = np.asarray(store[key], dtype=float)
                e = np.asarray(val, dtype=float).reshape(a.shape) if np.asarray(val).size == a.size else np.asarray(val, dtype=float)
                if a.shape != e.shape or np.max(np.abs(a - e)) > 1e-9 * (1 + np.max(np.abs(e))) + 1e-12:
                    d = "shape" if a.shape != e.shape else float(np.max(np.abs(a - e)))
                    out["violations"].append(violation("geometry_mismatch", f"{label}/{key}", f"{f.name} (frame {k}, t={t:.6f}): {where} array '{key}' differs from the value at that instant by {d}"))
                    return False
    return True


def frames_of(e, sol, out, label):
    """The exporter's frames, looked up in the ORIGINAL solution by time."""
    t_all = np.asarray(sol.t, dtype=float)
    frames = []
    prev = -1
    for tt in np.asarray(e.solution.t, dtype=float):
        hits = np.where(t_all == tt)[0]
        hits = hits[hits > prev]
        if len(hits) == 0:
            out["violations"].append(violation("frame_count", label, f"exported frame time {tt} is not an instant of the solution (or out of order)"))
            return None
        i = int(hits[0])
        prev = i
        row = {k: (None if getattr(sol, k, None) is None else np.asarray(getattr(sol, k))[i]) for k in ("P_N", "P_F")}
        frames.append((float(t_all[i]), np.asarray(sol.q)[i], np.asarray(sol.u)[i] if sol.u is not None else None, row))
    return frames


class InjectedExportFailure(RuntimeError):
    pass


class FailingContr:
    """Fault F5b: a contribution whose export raises at its ``at``-th frame (a user-defined export that hits a
    state it cannot draw, a missing field of the solution, a full disk ...).  Until then it behaves like the
    wrapped real contribution."""

    def __init__(self, inner, at):
        self.inner, self.at, self.calls = inner, at, 0
        self.name = inner.name

    def export(self, sol_i, **kwargs):
        self.calls += 1
        if self.calls > self.at:
            raise InjectedExportFailure(f"injected export failure at frame {self.at}")
        return self.inner.export(sol_i, **kwargs)


# ------------------------------------------------------------------ executor
def execute(plan, out, log):
    from cardillo.visualization import Export
    from cardillo.solver import SolverOptions, Newton

    sim = Sim(log)
    tmp = tempfile.mkdtemp(prefix="cardsim-c29-")
    classes = set()
    try:
        with sim.installed():
            if plan["kind"] == "rod":
                system, rod = build_cantilever(plan, moved=True)
                rod._export_dict["level"] = "centerline + directors"
                rod._export_dict["num_per_cell"] = "Auto" if plan["num_per_cell"] == "Auto" else int(plan["num_per_cell"])
                try:
                    sol = Newton(system, n_load_steps=plan["n_load_steps"], verbose=True, options=SolverOptions(newton_atol=plan["tol"], newton_rtol=plan["tol"], newton_max_iter=40)).solve()
                except Exception as e:
                    raise Discard(f"static_solve:{type(e).__name__}")
                if sim.failed_instances() or len(sol.t) < 2:
                    raise Discard("static_solve_failed")
                B = None
            else:
                try:
                    B = build(plan["scene"])
                except (AssertionError, RuntimeError, ValueError) as e:
                    raise Discard(f"assemble:{type(e).__name__}")
                system = B.system
                R = run_solver(B, plan["solver"], sim, record=False)
                if R.exc is not None or sim.failed_instances() or len(R.sol.t) < 2:
                    raise Discard("run_failed")
                sol = R.sol
            out["steps"] = len(sol.t) - 1
            if plan.get("quat_scale") and B is not None:
                qs = np.array(sol.q, dtype=float)
                hit = False
                for i, (b, body) in enumerate(zip(B.scene["bodies"], B.bodies)):
                    if b["kind"] == "rigid":
                        qs[:, body.qDOF[3:7]] *= (1.0 + 0.4 * np.sin(1.3 * np.arange(len(qs)) + i))[:, None]
                        hit = True
                if hit:
                    sol.q = qs
                    out["probes"]["non_unit_quaternions_exported"] += 1
            if plan.get("standstill") and len(sol.t) > 1 and all(np.array_equal(sol.q[0], sol.q[i]) for i in range(1, len(sol.t))):
                out["probes"]["consecutive_frames_with_identical_coordinates"] += 1
            if plan.get("long"):
                out["probes"]["more_than_1000_frames"] += 1
            folder = "vtk_out"
            if plan["preexisting"]:
                os.makedirs(os.path.join(tmp, folder))
                with open(os.path.join(tmp, folder, "stale_0.vtu"), "w") as f:
                    f.write("stale")
                out["faults"]["F5_preexisting_folder"] += 1
                out["probes"]["preexisting_folder"] += 1
            try:
                e = Export(Path(tmp), folder, plan["overwrite"], plan["fps"], sol)
            except Exception as ex:
                out["violations"].append(violation("export_crash", "Export.__init__", f"Export(...) raised {type(ex).__name__}: {ex} (overwrite={plan['overwrite']}, pre-existing folder={plan['preexisting']})"))
                return
            edir = Path(e.path)
            if plan["preexisting"]:
                stale = (edir / "stale_0.vtu").exists()
                if plan["overwrite"] and stale:
                    out["violations"].append(violation("export_crash", "overwrite", "overwrite=True kept the contents of the pre-existing folder"))
                    return
                if not plan["overwrite"] and (edir.name == folder or not (Path(tmp) / folder / "stale_0.vtu").exists()):
                    out["violations"].append(violation("export_crash", "no_overwrite", "overwrite=False wrote into (or removed) the pre-existing folder"))
                    return
            geo = Geo(B) if B is not None else None
            done = {}
            written = []  # every collection written so far: re-verified at the end (later exports must not disturb earlier ones)
            for k, op in enumerate(plan["ops"]):
                what = op["what"]
                before = {p.name for p in edir.glob("*.pvd")}
                label = what
                if what.startswith("failing:"):
                    inner = rod if what == "failing:rod" else _contr_of(B, what[8:])
                    try:
                        e.export_contr(FailingContr(inner, op["at"]))
                        out["probes"]["failing_export_completed"] += 1  # fewer frames than `at`
                    except InjectedExportFailure:
                        out["faults"]["F5b_export_aborted"] += 1
                    except Exception as ex:
                        out["violations"].append(violation("export_crash", "after_injected_failure", f"export op {k} ({what}) raised {type(ex).__name__}: {ex} instead of passing the contribution's own error on"))
                        return
                    log.ev("export_aborted", k, what)
                    continue
                try:
                    if what == "rod":
                        e.export_contr(rod)
                        contrs = [("rod", rod)]
                        out["probes"]["rod_exported"] += 1
                        if plan.get("lead_body"):
                            out["probes"]["rod_not_first_in_system"] += 1
                    elif what == "system":
                        # System.export creates its own Export (same path / folder semantics)
                        e2 = system.export(Path(tmp), "vtk_system", sol, overwrite=True, fps=plan["fps"])
                        out["probes"]["system_export"] += 1
                        edir2 = Path(e2.path)
                        frames = frames_of(e2, sol, out, "system")
                        if frames is None:
                            return
                        for c in system.contributions:
                            if not hasattr(c, "export"):
                                continue
                            w = _what_of(B, c)
                            if w is None:
                                continue
                            classes.add(type(c).__name__)
                            if not check_files(out, edir2 / f"{c.name}.pvd", f"system/{type(c).__name__}", frames, lambda t, q, u, row, w=w: geo.expect(w, t, q, u, row), sol):
                                return
                        continue
                    elif what.startswith("list:"):
                        if what == "list:contacts":
                            lst = list(B.contacts)
                            names = [f"contact{i}" for i in range(len(lst))]
                        else:
                            kind0 = B.scene["bodies"][0]["kind"]
                            mesh0 = bool(B.scene["bodies"][0].get("mesh"))  # a list holds contributions of one type
                            ids = [i for i, b in enumerate(B.scene["bodies"]) if b["kind"] == kind0 and bool(b.get("mesh")) == mesh0]
                            lst = [B.bodies[i] for i in ids]
                            names = [f"body{i}" for i in ids]
                        e.export_contr(lst)
                        contrs = list(zip(names, lst))
                    else:
                        c = _contr_of(B, what)
                        kw = {}
                        if op.get("file_name"):
                            kw["file_name"] = op["file_name"]
                        if op.get("base_export"):
                            kw["base_export"] = True
                        e.export_contr(c, **kw)
                        contrs = [(what, c)]
                        if what.startswith("body") and B.scene["bodies"][int(what[4:])].get("mesh"):
                            out["probes"]["meshed_body_exported" if not op.get("base_export") else "meshed_body_base_export"] += 1
                except Exception as ex:
                    out["violations"].append(violation("export_crash", what.rstrip("0123456789"), f"export op {k} ({what}) raised {type(ex).__name__}: {ex}"))
                    return
                after = {p.name for p in edir.glob("*.pvd")}
                new = sorted(after - before)
                if len(new) != 1:
                    out["violations"].append(violation("pvd_missing_file", label.rstrip("0123456789"), f"export op {k} ({what}) created {len(new)} new collection files {new} (existing: {sorted(before)})"))
                    return
                if done.get((what, op.get("file_name"))):
                    out["probes"]["exported_twice"] += 1
                done[(what, op.get("file_name"))] = True
                frames = frames_of(e, sol, out, label)
                if frames is None:
                    return
                for nm, c in contrs:
                    classes.add(type(c).__name__)
                if what == "rod":
                    nf = rod._export_dict["num_frames"]

                    def exp_rod(t, q, u, row):
                        pts, d1, d2, d3 = [], [], [], []
                        for xi in np.linspace(0, 1, nf):
                            qe = q[rod.qDOF][rod.local_qDOF_P((xi,))]
                            pts.append(rod.r_OP(t, qe, (xi,)))
                            A = rod.A_IB(t, qe, (xi,))
                            d1.append(A[:, 0]), d2.append(A[:, 1]), d3.append(A[:, 2])
                        return pts, {"d1": d1, "d2": d2, "d3": d3}, {}

                    fn = exp_rod
                else:

                    def fn(t, q, u, row, contrs=contrs, base=bool(op.get("base_export"))):
                        P, PD, CD = [], {}, {}
                        for nm, c in contrs:
                            p, pd, cd = geo.expect(nm, t, q, u, row, base_export=base)
                            P.extend(p)
                            for store, src in ((PD, pd), (CD, cd)):
                                for key, val in src.items():
                                    store.setdefault(key, []).extend(list(val))
                        return P, PD, CD

                    if any(nm.startswith("contact") for nm, _ in contrs):
                        out["probes"]["contact_exported"] += 1
                    if any(nm.startswith("frame") and geo.B.frame_motions[int(nm[5:])].moving for nm, _ in contrs):
                        out["probes"]["moving_frame_exported"] += 1
                label2 = "+".join(sorted({type(c).__name__ for _, c in contrs}))
                if not check_files(out, edir / new[0], label2, frames, fn, sol):
                    return
                written.append((edir / new[0], label2, frames, fn))
            # ---------------- all collections once more, after the last export
            if len(written) > 1:
                for pvd, label2, frames, fn in written[:-1]:
                    n0 = len(out["violations"])
                    if not check_files(out, pvd, label2 + "/after_later_exports", frames, fn, sol):
                        for v in out["violations"][n0:]:
                            v["detail"] = "re-read after later exports into the same folder: " + v["detail"]
                        return
                out["probes"]["collections_reverified"] += len(written) - 1
    finally:
        shutil.rmtree(tmp, ignore_errors=True)
    fps_b = "low" if plan["fps"] <= 20 else ("mid" if plan["fps"] <= 200 else "high")
    out["sim_time"] = float(sol.t[-1] - sol.t[0])
    out["nontrivial"] = out["probes"]["vtu_compared"] >= 2
    out["abstract"] = repr((plan["kind"], tuple(sorted(classes)), fps_b, plan["overwrite"], plan["preexisting"], bool(out["probes"]["exported_twice"])))


def _contr_of(B, what):
    kind = "".join(c for c in what if not c.isdigit())
    i = int("".join(c for c in what if c.isdigit()) or 0)
    return {"body": B.bodies, "frame": B.frames, "force": B.forces, "contact": B.contacts, "tpi": B.tpis, "law": B.laws}[kind][i]


def _what_of(B, c):
    for kind, lst in (("body", B.bodies), ("frame", B.frames), ("force", B.forces), ("contact", B.contacts), ("tpi", B.tpis), ("law", B.laws)):
        for i, x in enumerate(lst):
            if x is c:
                return f"{kind}{i}"
    return None


def shrink(plan):
    if len(plan["ops"]) > 1:
        for i in range(len(plan["ops"])):
            yield dict(plan, ops=plan["ops"][:i] + plan["ops"][i + 1 :])
    if plan["preexisting"]:
        yield dict(plan, preexisting=False)
    so = plan.get("solver")
    if so and so["steps"] > 3:
        yield dict(plan, solver=dict(so, steps=max(3, so["steps"] // 2)))
