"""C16 - consistent initial conditions solve the initial equations of motion (DESIGN 5.3).

The states that matter are reached by running (resting / sliding contacts,
chains with active compliance and actuators), and the rejection clause is the
system's only defence against a corrupted restart state (fault F3c).
"""

import copy

import numpy as np

from ..core import violation, Discard
from ..gen_scenes import gen_belt_scene, gen_chain_scene, gen_contact_scene, add_knife_edge, rotate_contact_scene, gen_arm_on_floor_scene, gen_bar_on_supports_scene
from .. import rot
from ..scenes import build
from ..seams import Sim
from ..session import gen_solver, project_velocities, run_solver, require_regular, body_states, harness_M

PROPERTY = "C16"
LEVEL = "exploration"
BUDGET = {"quick": 640, "thorough": 40000}
CHUNK = 4
RUN_TIMEOUT_S = 1500
MAX_DISCARD_FRACTION = 0.5
RULE = (
    "seeded sessions: (a) chains with joints, force laws in force and compliance form, Maxwell elements, motors and PD "
    "controllers, moving frames; (b) spheres resting / sliding / spinning on planes and against each other with friction "
    "0..1. The monitor is evaluated at the first assemble and at states reached by running RATTLE (tight tolerances) for "
    "k steps and re-initialising (through a harness-built system and through deepcopy + set_new_initial_state). Faults "
    "F3c: the state handed to assembly is corrupted (velocity of a jointed body, position of a jointed body on restart, "
    "position of a point mass on a spherical joint, sphere pushed into a plane, approaching velocity on a closed contact) "
    "and must be rejected; un-corrupted states the harness itself finds clean must be accepted. distinct = (scene family, "
    "contribution classes, contact states {open, persistent-stick, persistent-slip, impact}, mode, corruption kind); "
    "non-trivial = at least one constraint, compliance element, actuator or closed contact"
)
RULE += " Chain sessions may carry a user-defined nonholonomic (velocity-level) constraint. Fault F2 at the initial-condition fixed point (forced through the decision hook, or organic through an iteration budget of 1..3) with continue_with_unconverged on / off: assembly must raise, warn, or hand out values that satisfy the monitor."
RULE += " A third of the runs build their System on an object that was assembled before with prototype bodies of other masses (then replaced); the equations-of-motion residual uses the mass matrix scattered from the bodies themselves."
RULE += " Family belt (one run in ten): a body lying on a plane that is moved tangentially in time - at rest (sliding on the belt), moving with it (sticking) or otherwise; the slip velocity then has an explicit time part."
COMPONENTS = {
    "real": ["consistent_initial_conditions / compute_I_F", "System.assemble / set_new_initial_state / deepcopy", "Rattle (to reach states)", "all contributions"],
    "stub": ["tqdm -> SimProgress"],
    "model": ["equations of motion, acceleration-level constraints and Signorini / Coulomb conditions evaluated by the harness from the System's own model functions"],
}
ASSUMPTIONS = [
    "corruptions are >= 1e-4 in the violated quantity (IS_CLOSE_ATOL is 1e-8); 'clean' = harness's own evaluation gives |g|,|g_dot|,|gamma| <= 1e-9, g_N >= -1e-9 and no approaching closed contact",
    "assembly runs with fixed_point_atol = 1e-10; monitor tolerance 1e-6*(1+scale)",
]
REQUIRED_PROBES = {
    "quick": ["persistent_contact", "sliding_contact", "sticking_contact", "actuator_present", "compliance_present", "reached_state_checked", "corrupt_vel", "corrupt_pen", "corrupt_approach", "corrupt_pos", "clean_restart_accepted"]
}
CORRUPT = ["vel", "pen", "approach", "pos", "pos_point"]


def ic_options():
    from cardillo.solver import SolverOptions

    return SolverOptions(fixed_point_atol=1e-10, fixed_point_max_iter=20000)


def gen(rng, tier, index):
    fam = ["chain", "contact", "chain", "contact", "chain_actuated"][index % 5]
    if fam == "chain_actuated" and (index // 5) % 2 == 1:
        fam = "arm_on_floor"
    if fam == "contact" and (index // 5) % 3 == 2:
        fam = "bar_on_supports"
    if index % 10 == 7:
        fam = "belt"
    if fam == "belt":
        scene = gen_belt_scene(rng)
    elif fam == "bar_on_supports":
        scene = gen_bar_on_supports_scene(rng)
    elif fam == "arm_on_floor":
        scene = gen_arm_on_floor_scene(rng)
    elif fam == "contact":
        scene = gen_contact_scene(rng, nspheres=int(rng.integers(1, 4)))
    elif fam == "chain_actuated":
        scene = gen_chain_scene(rng, nbodies=int(rng.integers(1, 3)), joints=["revolute"], rigid_only=True, allow_loop=False)
        rev = [j for j, jt in enumerate(scene["joints"]) if jt["type"] == "revolute"]
        if rev and not scene["actuators"]:
            scene["actuators"].append({"type": "motor", "joint": rev[0], "tau": float(rng.uniform(1, 5)) * float(rng.choice([-1, 1])), "time": "const"})
    else:
        scene = gen_chain_scene(rng)
    mode = str(rng.choice(["initial", "reached"]))
    k = int(rng.integers(3, 40))
    dt = float(10 ** rng.uniform(-3, -2.2))
    solver = gen_solver(rng, "Rattle", k, dt, tight=True, buggify=False, contacts=(fam in ("contact", "arm_on_floor", "bar_on_supports", "belt")))
    corrupt = None
    if rng.random() < 0.5:
        kinds = ["pen", "approach", "vel"] if fam in ("contact", "arm_on_floor", "bar_on_supports", "belt") else ["vel", "pos", "pos_point"]
        corrupt = {"kind": str(rng.choice(kinds)), "pick": int(rng.integers(100)), "dir": rng.normal(size=3).tolist(), "size": float(10 ** rng.uniform(-4, -1))}
    plan = {"scene": scene, "family": fam, "mode": mode, "solver": solver, "corrupt": corrupt, "via": str(rng.choice(["build", "set_new_initial_state"]))}
    if fam in ("contact", "arm_on_floor", "bar_on_supports", "belt") and rng.random() < 0.5:
        # fault F2 at the initial-condition fixed point: forced (hook) or organic (tiny iteration budget), with the
        # legal option continue_with_unconverged on or off
        plan["ic_fault"] = {"how": str(rng.choice(["forced", "budget"])), "continue": bool(rng.random() < 0.6), "max_iter": int(rng.integers(1, 4))}
    if fam == "contact" and rng.random() < 0.5:
        # the whole scene rigidly moved: floors become walls and ceilings, gravity points anywhere
        rotate_contact_scene(scene, rot.rand_quat(rng), rng.uniform(-1, 1, 3))
    if rng.random() < 0.3 and fam != "belt":
        scene["t0"] = float(np.round(rng.uniform(-3.0, 8.0), 3))  # the time origin is arbitrary
    if fam not in ("contact", "arm_on_floor", "bar_on_supports", "belt"):
        add_knife_edge(rng, scene, prob=0.3)  # velocity-level constraint: gamma_dot(u_dot0) = 0 and W_gamma la_gamma0 in the monitor
    if index % 3 == 1:
        # API history (F8): the System was assembled before with prototype bodies that were then replaced
        scene["earlier_assembly"] = {"mass_scale": [0.2, 5.0][(index // 3) % 2]}
    return plan


# ------------------------------------------------------------------ monitor
def monitor_ic(B, out, tag):
    s = B.system
    t, q, u, ud = s.t0, s.q0, s.u0, s.u_dot0
    la_g, la_ga, la_c, la_N, la_F = s.la_g0, s.la_gamma0, s.la_c0, s.la_N0, s.la_F0
    M = harness_M(s, t, q)  # from the bodies themselves
    h = s.h(t, q, u)
    terms = {
        "W_tau@la_tau": s.W_tau(t, q).toarray() @ s.la_tau(t, q, u),
        "W_c@la_c": s.W_c(t, q).toarray() @ la_c,
        "W_g@la_g": s.W_g(t, q).toarray() @ la_g,
        "W_gamma@la_gamma": s.W_gamma(t, q).toarray() @ la_ga,
        "W_N@la_N": s.W_N(t, q).toarray() @ la_N,
        "W_F@la_F": s.W_F(t, q).toarray() @ la_F,
    }
    res = M @ ud - h - sum(terms.values())
    scale = 1 + float(np.max(np.abs(h))) + float(np.max(np.abs(M @ ud))) + max(float(np.max(np.abs(v))) if v.size else 0.0 for v in terms.values())
    tol = 1e-6 * scale

    def bad(cls, sig, detail):
        out["violations"].append(violation(cls, sig, f"{tag}: {detail}"))

    r = float(np.max(np.abs(res))) if res.size else 0.0
    if r > tol:
        # name the force term that would close the gap, if any
        miss = [k for k, v in terms.items() if v.size and np.max(np.abs(res + v)) <= tol and np.max(np.abs(v)) > tol]
        classes = sorted({type(c).__name__ for c in s.contributions if type(c).__name__ not in ("Frame", "RigidBody", "PointMass", "Force")})
        bad("eom_residual", (miss[0] if miss else "+".join(classes)), f"M u_dot0 - h - W la = {r:.3e} (tol {tol:.1e}); the residual equals the term {miss} left out" if miss else f"M u_dot0 - h - W la = {r:.3e} (tol {tol:.1e})")
        return False
    for nm, val in (("g_ddot", s.g_ddot(t, q, u, ud)), ("gamma_dot", s.gamma_dot(t, q, u, ud))):
        if val.size and np.max(np.abs(val)) > tol:
            bad("acc_constraint", nm, f"|{nm}(u_dot0)| = {np.max(np.abs(val)):.3e} (tol {tol:.1e})")
            return False
    if s.nla_c:
        cv = s.c(t, q, u, la_c)
        if np.max(np.abs(cv)) > tol:
            bad("eom_residual", "compliance", f"|c(q0,u0,la_c0)| = {np.max(np.abs(cv)):.3e}")
            return False
        out["probes"]["compliance_present"] += 1
    if s.nla_N >= 2 and len({id(getattr(c, "subsystem", None)) for c in B.contacts}) < len(B.contacts) and int(np.sum(np.abs(s.g_N(t, q)) <= 1e-8)) >= 2:
        out["probes"]["several_closed_contacts_on_one_body"] += 1
    if s.nla_tau:
        out["probes"]["actuator_present"] += 1
        if s.nla_N and np.any(np.abs(s.g_N(t, q)) <= 1e-8):
            out["probes"]["actuator_with_closed_contact"] += 1
    if s.nla_gamma:
        out["probes"]["velocity_level_constraint_present"] += 1
    # ---- contacts
    if s.nla_N:
        gN, gNd = s.g_N(t, q), s.g_N_dot(t, q, u)
        gNdd = s.g_N_ddot(t, q, u, ud)
        gF = s.gamma_F(t, q, u)
        gFd = s.gamma_F_dot(t, q, u, ud)
        for i, (co, c) in enumerate(zip(B.scene["contacts"], B.contacts)):
            n = c.la_NDOF[0]
            closed = abs(gN[n]) <= 1e-8
            persistent = closed and abs(gNd[n]) <= 1e-8
            fr = hasattr(c, "la_FDOF") and co["mu"] > 0
            lF = la_F[c.la_FDOF] if fr else np.zeros(2)
            sig = type(c).__name__
            if not persistent:
                if abs(la_N[n]) > tol or np.linalg.norm(lF) > tol:
                    bad("signorini_acc", sig + "/open", f"contact {i} is not persistent (g_N={gN[n]:.2e}, g_N_dot={gNd[n]:.2e}) but la_N0={la_N[n]:.3e}, |la_F0|={np.linalg.norm(lF):.3e}")
                    return False
                out["probes"]["open_or_impact_contact"] += 1
                continue
            out["probes"]["persistent_contact"] += 1
            if la_N[n] < -tol or gNdd[n] < -tol or abs(la_N[n] * gNdd[n]) > tol * (1 + abs(la_N[n]) + abs(gNdd[n])):
                bad("signorini_acc", sig, f"persistent contact {i}: la_N0={la_N[n]:.3e}, g_N_ddot={gNdd[n]:.3e} violate 0 <= la_N  perp  g_N_ddot >= 0 (tol {tol:.1e})")
                return False
            if fr:
                lim = co["mu"] * la_N[n]
                nF = float(np.linalg.norm(lF))
                if nF > lim + tol:
                    bad("coulomb_acc", sig + "/cone", f"persistent contact {i}: |la_F0|={nF:.3e} > mu*la_N0={lim:.3e}")
                    return False
                v = gF[c.la_FDOF]
                nv = float(np.linalg.norm(v))
                if nv > 1e-6:
                    out["probes"]["sliding_contact"] += 1
                    if lim > 10 * tol and np.linalg.norm(lF + lim * v / nv) > 0.01 * lim + tol:
                        bad("coulomb_acc", sig + "/slip", f"sliding contact {i} (|gamma_F|={nv:.3e}): la_F0={lF.tolist()} is not -mu*la_N0*gamma_F/|gamma_F|={(-lim * v / nv).tolist()}")
                        return False
                elif nv <= 1e-8:
                    out["probes"]["sticking_contact"] += 1
                    a = gFd[c.la_FDOF]
                    na = float(np.linalg.norm(a))
                    if na > tol * 10:
                        # tangential acceleration: friction must be on the cone boundary and oppose it
                        if lim > 10 * tol and np.linalg.norm(lF + lim * a / na) > 0.01 * lim + 10 * tol:
                            bad("coulomb_acc", sig + "/stick", f"contact {i} starts to slide (|gamma_F_dot|={na:.3e}) but la_F0={lF.tolist()} is not -mu*la_N0*gamma_F_dot/|gamma_F_dot|={(-lim * a / na).tolist()}")
                            return False
    return True


# ------------------------------------------------------------------ corruption (F3c)
def harness_clean(Bref, t, q, u):
    s = Bref.system
    vals = [s.g(t, q), s.g_dot(t, q, u), s.gamma(t, q, u)]
    m = max([float(np.max(np.abs(v))) for v in vals if v.size] + [0.0])
    gN = s.g_N(t, q)
    gNd = s.g_N_dot(t, q, u)
    pen = float(np.max(-gN)) if gN.size else 0.0
    appr = float(np.max(np.where(np.abs(gN) <= 1e-8, -gNd, 0.0))) if gN.size else 0.0
    return m, pen, appr


def corrupt_state(B, scene, cor, t, q, u):
    """-> (new scene-state dict, expected reason) or None if not applicable."""
    s = B.system
    kind = cor["kind"]
    d = np.array(cor["dir"])
    d /= np.linalg.norm(d)
    size = max(cor["size"], 1e-4)
    q2, u2 = q.copy(), u.copy()
    sc = scene
    if kind in ("vel", "pos"):
        jb = sorted({jt["b"][1] for jt in sc["joints"] if jt["type"] not in ()})
        if not jb:
            return None
        i = jb[cor["pick"] % len(jb)]
        body = B.bodies[i]
        if kind == "vel":
            u2[body.uDOF[:3]] += size * 10 * d
        else:
            q2[body.qDOF[:3]] += size * 10 * d
    elif kind == "pos_point":
        return "pos_point"
    elif kind in ("pen", "approach"):
        s2p = [(i, co) for i, co in enumerate(sc["contacts"]) if co["type"] == "s2p"]
        if not s2p:
            return None
        gN = s.g_N(t, q)
        if kind == "approach":
            closed = [(i, co) for i, co in s2p if abs(gN[B.contacts[i].la_NDOF[0]]) <= 1e-8]
            if not closed:
                return None
            i, co = closed[cor["pick"] % len(closed)]
            n = B.contacts[i].n(t)
            body = B.bodies[co["body"]]
            u2[body.uDOF[:3]] -= (0.01 + size) * n
        else:
            i, co = s2p[cor["pick"] % len(s2p)]
            n = B.contacts[i].n(t)
            body = B.bodies[co["body"]]
            g = gN[B.contacts[i].la_NDOF[0]]
            q2[body.qDOF[:3]] -= (g + size) * n
    return q2, u2


def execute(plan, out, log):
    from cardillo.solver import SolverOptions

    scene = project_velocities(plan["scene"])
    cor = plan["corrupt"]
    sim = Sim(log)
    classes = set()
    with sim.installed():
        # ---------------- special corruption available at the very first assembly
        if cor and cor["kind"] == "pos_point":
            pts = [j for j, jt in enumerate(scene["joints"]) if jt["type"] == "spherical" and scene["bodies"][jt["b"][1]]["kind"] == "point" and not jt.get("loop")]
            if pts:
                sc2 = copy.deepcopy(scene)
                jt = sc2["joints"][pts[cor["pick"] % len(pts)]]
                d = np.array(cor["dir"])
                jt["rJ"] = (np.array(jt["rJ"]) + max(cor["size"], 1e-4) * 10 * d / np.linalg.norm(d)).tolist()
                out["faults"]["F3c_corrupt_pos_point"] += 1
                out["probes"]["corrupt_pos"] += 1
                try:
                    build(sc2, options=ic_options())
                except AssertionError:
                    out["probes"]["corrupt_rejected"] += 1
                except Exception as e:
                    raise Discard(f"corrupt_build:{type(e).__name__}")
                else:
                    out["violations"].append(violation("corrupt_accepted", "pos_point/Spherical", f"a point mass placed {max(cor['size'], 1e-4) * 10:.1e} away from its spherical joint was accepted by assemble()"))
                    return
        # ---------------- first assemble
        try:
            B = build(scene, options=ic_options())
        except (AssertionError, RuntimeError, ValueError, np.linalg.LinAlgError) as e:
            raise Discard(f"assemble:{type(e).__name__}")
        require_regular(B)
        s = B.system
        if getattr(B, "earlier_assembly", False):
            out["probes"]["system_assembled_before_with_other_bodies"] += 1
        classes |= {type(c).__name__ for c in s.contributions}
        if not monitor_ic(B, out, "first assemble"):
            return
        t, q, u = s.t0, s.q0.copy(), s.u0.copy()
        Bref = B
        steps = 0
        if plan["mode"] == "reached":
            pristine = s.deepcopy()
            R = run_solver(B, plan["solver"], sim, record=False)
            if R.exc is not None or sim.failed_instances() or len(R.sol.t) < plan["solver"]["steps"] + 1:
                raise Discard("advance_failed")
            sol = R.sol
            steps = len(sol.t) - 1
            t, q, u = float(sol.t[-1]), np.array(sol.q[-1]), np.array(sol.u[-1])
            if not (np.all(np.isfinite(q)) and np.all(np.isfinite(u))):
                raise Discard("nonfinite")
            out["steps"] = steps
            out["sim_time"] = t - s.t0
            m, pen, appr = harness_clean(Bref, t, q, u)
            clean = m <= 1e-9 and pen <= 1e-9 and appr <= 1e-9
            log.ev("reached", t, q, u, m, pen, appr)
            if clean and not cor:
                st = body_states(Bref, t, q, u)
                # RATTLE keeps the gap of a resting contact at solver tolerance; closed contacts are put back
                # exactly onto the plane so that "persistent" is decided the same way as at t0
                if plan["via"] == "build":
                    try:
                        B2 = build(scene, state=st, options=ic_options())
                    except AssertionError as e:
                        if "does not converge" in str(e):
                            # the contact fixed point ran out of iterations (e.g. a very slowly sliding contact): reported, not silent,
                            # and no statement about consistency
                            raise Discard("ic_fixed_point_nonconvergence")
                        out["violations"].append(violation("clean_rejected", "build", f"state reached by RATTLE after {steps} steps (|g|,|g_dot|<= {m:.1e}, penetration {pen:.1e}) was rejected: {e}"))
                        return
                    except Exception as e:
                        raise Discard(f"rebuild:{type(e).__name__}")
                else:
                    c2 = pristine
                    try:
                        c2.set_new_initial_state(q, u, t0=t, options=ic_options())
                    except AssertionError as e:
                        if "does not converge" in str(e):
                            raise Discard("ic_fixed_point_nonconvergence")
                        out["violations"].append(violation("clean_rejected", "set_new_initial_state", f"state reached by RATTLE after {steps} steps (|g|,|g_dot|<= {m:.1e}, penetration {pen:.1e}) was rejected: {e}"))
                        return
                    except Exception as e:
                        raise Discard(f"reinit:{type(e).__name__}")

                    class _B:
                        pass

                    B2 = _B()
                    B2.system, B2.scene = c2, B.scene
                    nm = {c.name: c for c in c2.contributions}
                    B2.contacts = [nm[c.name] for c in B.contacts]
                out["probes"]["clean_restart_accepted"] += 1
                out["probes"]["reached_state_checked"] += 1
                if not monitor_ic(B2, out, f"state reached after {steps} RATTLE steps ({plan['via']})"):
                    return
        # ---------------- corrupted state must be rejected
        if cor and cor["kind"] != "pos_point":
            res = corrupt_state(Bref, scene, cor, t, q, u)
            if res is not None:
                q2, u2 = res
                m, pen, appr = harness_clean(Bref, t, q2, u2)
                if max(m, pen, appr) >= 1e-5:
                    out["faults"][f"F3c_corrupt_{cor['kind']}"] += 1
                    out["probes"]["corrupt_" + cor["kind"]] += 1
                    via = plan["via"] if cor["kind"] != "pos" else "set_new_initial_state"
                    try:
                        if via == "build":
                            build(scene, state=body_states(Bref, t, q2, u2), options=ic_options())
                        else:
                            c3 = Bref.system.deepcopy()
                            c3.set_new_initial_state(q2, u2, t0=t, options=ic_options())
                    except AssertionError:
                        out["probes"]["corrupt_rejected"] += 1
                    except Exception as e:
                        raise Discard(f"corrupt_apply:{type(e).__name__}")
                    else:
                        out["violations"].append(
                            violation(
                                "corrupt_accepted",
                                f"{cor['kind']}/{via}",
                                f"state corrupted by '{cor['kind']}' (harness: constraint residual {m:.2e}, penetration {pen:.2e}, approach speed {appr:.2e}) was accepted by {via}",
                            )
                        )
                        return
    icf = plan.get("ic_fault")
    if icf and not out["violations"]:
        forced = icf["how"] == "forced"
        sim2 = Sim(log, faults=[("ic.fp", 0, 1)] if forced else [])
        opts = SolverOptions(fixed_point_atol=1e-10, fixed_point_max_iter=(50 if forced else icf["max_iter"]), continue_with_unconverged=icf["continue"])
        with sim2.installed():
            try:
                B4 = build(scene, options=opts)
                raised = None
            except (AssertionError, RuntimeError, ValueError) as e:
                B4, raised = None, e
        failed = [i for i in sim2.failed_instances() if i[0] == "ic.fp"]
        if failed:
            out["faults"]["F2_ic_fixed_point_failure" if forced else "F2o_ic_fixed_point_budget"] += 1
            out["probes"]["ic_fixed_point_failed"] += 1
            if raised is not None:
                out["probes"]["ic_failure_raised"] += 1
            elif any(w[0] > failed[0][6] for w in sim2.warnings):
                out["probes"]["ic_failure_warned"] += 1
            else:
                # silent return: then the values handed out must be consistent after all
                n0 = len(out["violations"])
                monitor_ic(B4, out, f"assemble() returned silently although its contact fixed point did not converge ({icf['how']}, continue_with_unconverged={icf['continue']})")
                for v in out["violations"][n0:]:
                    v["cls"], v["sig"] = "ic_unconverged_silent", "consistent_initial_conditions/" + v["cls"]
                if len(out["violations"]) > n0:
                    return
                out["probes"]["ic_failure_silent_but_consistent"] += 1
    s = Bref.system
    out["nontrivial"] = bool(s.nla_g + s.nla_gamma + s.nla_c + s.nla_tau) or out["probes"]["persistent_contact"] > 0
    states = tuple(k for k in ("persistent_contact", "sliding_contact", "sticking_contact", "open_or_impact_contact") if out["probes"][k])
    out["abstract"] = repr((plan["family"], tuple(sorted(classes - {"Frame", "Force"})), states, plan["mode"], (cor or {}).get("kind"), plan["via"]))


def shrink(plan):
    if plan["corrupt"]:
        yield dict(plan, corrupt=None)
    if plan.get("ic_fault"):
        yield {k: v for k, v in plan.items() if k != "ic_fault"}
    if plan["mode"] == "reached":
        yield dict(plan, mode="initial")
        so = plan["solver"]
        if so["steps"] > 1:
            yield dict(plan, solver=dict(so, steps=max(1, so["steps"] // 2)))
    sc = plan["scene"]
    for key in ("forces", "actuators", "laws", "contacts"):
        for i in range(len(sc.get(key, [])) - 1, -1, -1):
            new = dict(sc)
            new[key] = sc[key][:i] + sc[key][i + 1 :]
            yield dict(plan, scene=new)
    if sc.get("gravity") is not None:
        yield dict(plan, scene=dict(sc, gravity=None))
