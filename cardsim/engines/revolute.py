"""C25 - revolute joint angle tracks the accumulated relative rotation (DESIGN 5.11).

History machine over one real ``Revolute`` (inside a real assembled System)
against an accumulator model phi += delta.
"""

import contextlib
import warnings
import io

import numpy as np

from ..core import violation, ddmin_list, Discard
from .. import rot

PROPERTY = "C25"
LEVEL = "exploration"
BUDGET = {"quick": 4000, "thorough": 250000}
CHUNK = 50
RUN_TIMEOUT_S = 1500
RULE_J = " Fault F1q: between two samples the joint is queried with a non-finite solver iterate (3% of the operations); the samples that follow are judged as before."
RULE = (
    "seeded histories (5..300 ops) over one Revolute between origin-frame/rigid body, rigid body/rigid body or a Frame with prescribed translation and rotation/rigid body (time advances between queries), "
    "random axis, joint frame, angle0; ops rotate(delta in (-pi/2,pi/2), biased to quadrant boundaries and long "
    "monotone runs) + query, repeated query (l/angle alias), rate query with random twists, common rigid motion "
    "of both bodies (wiggle), reset (joint/System) checked against a freshly built twin; quaternions handed in "
    "with random non-unit scale. distinct = (subsystem kind, axis, op-kind set, max forward turns (cap 4), max "
    "backward turns (cap 4), boundary hit, reset quadrant set); non-trivial = at least one completed quadrant change"
)
RULE += RULE_J + " A third of the histories query with arbitrary, also decreasing, time stamps."
COMPONENTS = {
    "real": ["cardillo.constraints.Revolute", "cardillo.discrete.RigidBody", "cardillo.System (assembly)"],
    "stub": [],
    "model": ["accumulator phi += delta; fresh twin joint for reset"],
}
ASSUMPTIONS = [
    "increments between consecutive angle queries are < pi/2 - 1e-6 (the property's sampling premise)",
]
TOL = 1e-9
HALF_PI = 0.5 * np.pi


# ------------------------------------------------------------------ generator
def gen(rng, tier, index):
    sub1 = str(rng.choice(["origin", "origin", "body", "body", "body", "frame", "frame"]))
    axis = int(rng.integers(3))
    angle0 = float(rng.choice([0.0, 0.0, rng.uniform(-7, 7), np.pi, -HALF_PI]))
    plan = {
        "sub1": sub1,
        "axis": axis,
        "angle0": angle0,
        "p1": rot.rand_quat(rng).tolist(),
        "r1": rng.uniform(-1, 1, 3).tolist(),
        "p2": rot.rand_quat(rng).tolist(),
        "r2": rng.uniform(-1, 1, 3).tolist(),
        "pJ": None if rng.random() < 0.25 else rot.rand_quat(rng).tolist(),
        "rJ": None if rng.random() < 0.25 else rng.uniform(-1, 1, 3).tolist(),
    }
    if sub1 == "frame":
        # prescribed motion of the first partner: r(t) = r1 + amp sin(w t), A(t) = A1 R(axis, alpha sin(w t))
        plan["motion"] = {
            "amp": (rng.uniform(-1, 1, 3) * (rng.random() < 0.6)).tolist(),
            "w": float(rng.uniform(0.5, 4.0)),
            "axis": rng.normal(size=3).tolist() if rng.random() < 0.6 else np.eye(3)[axis].tolist(),
            "alpha": float(rng.choice([0.0, rng.uniform(0.2, 7.0), rng.uniform(0.2, 7.0)])),
        }
    n = int(rng.choice([5, 20, 60, 150, 300]))
    mode = str(rng.choice(["forward", "backward", "random", "boundary", "mixed"]))
    if rng.random() < 0.12:
        # axis-aligned joint sampled in steps of an eighth / a twelfth of a turn: every quarter and half turn is hit
        # EXACTLY (rotation matrices with entries 0, +-1; projections exactly zero, including -0.0 / +0.0)
        plan.update(sub1="origin", p2=[1.0, 0.0, 0.0, 0.0], pJ=None, rJ=None, exact=True)
        plan.pop("motion", None)
        sub1 = "origin"
        mode = "exact"
        step = float(rng.choice([np.pi / 4, np.pi / 6]))
    ops = []
    phi = 0.0
    lim = HALF_PI - 1e-6
    for _ in range(n):
        x = rng.random()
        if 0.69 <= x < 0.72:
            # fault: the joint is queried with a diverged solver iterate (non-finite coordinates) between two samples
            ops.append({"op": "bad_query", "kind": str(rng.choice(["nan_all", "nan_one", "inf"])), "via": str(rng.choice(["l", "angle"]))})
        elif x < 0.72:
            m = mode if mode != "mixed" else str(rng.choice(["forward", "backward", "random", "boundary"]))
            if m == "exact":
                d = step * float(rng.choice([1.0, 1.0, 1.0, -1.0])) * (1.0 if len(ops) % 40 < 25 else -1.0)
            elif m == "forward":
                d = float(rng.uniform(0.3, lim))
            elif m == "backward":
                d = -float(rng.uniform(0.3, lim))
            elif m == "random":
                d = float(rng.uniform(-lim, lim))
            else:
                # land on / next to a quadrant boundary
                k = np.round(phi / HALF_PI) + int(rng.integers(-1, 2))
                eps = float(rng.choice([0.0, 1e-15, -1e-15, 1e-12, -1e-12, 1e-9, -1e-9, 1e-4, -1e-4]))
                d = float(np.clip(k * HALF_PI + eps - phi, -lim, lim))
            phi += d
            ops.append({"op": "rotate", "d": d})
        elif x < 0.80:
            ops.append({"op": "query", "n": int(rng.integers(1, 4)), "via": str(rng.choice(["l", "angle"]))})
        elif x < 0.88:
            ops.append(
                {
                    "op": "rate",
                    "u1": rng.normal(size=6).tolist(),
                    "u2": rng.normal(size=6).tolist(),
                }
            )
        elif x < 0.95:
            if sub1 == "frame":
                ops.append({"op": "advance", "dt": float(rng.choice([rng.uniform(0.01, 0.5), rng.uniform(0.5, 5.0)]))})
            else:
                ops.append({"op": "wiggle", "p": rot.rand_quat(rng).tolist(), "t": rng.uniform(-2, 2, 3).tolist()})
        else:
            ops.append({"op": "reset", "via": str(rng.choice(["joint", "system"]))})
    plan["ops"] = ops
    # time stamps of the queries: the joint angle is a function of the rotation history, not of the clock - a third of
    # the histories carry arbitrary (also decreasing) time stamps: reverse playback, rejected steps of adaptive back ends
    plan["time_stamps"] = "arbitrary" if index % 3 == 2 else "plan"
    plan["angle0_kind"] = str(rng.choice(["float", "float", "np64", "np0d"]))
    plan["scale"] = [float(x) for x in rng.uniform(0.5, 2.0, 2)]
    if plan.get("exact"):
        plan["scale"] = [1.0, 1.0]
    return plan


# ------------------------------------------------------------------ executor
class Rig:
    """Builds the two-body system from the plan and maps (phi, wiggle) to q."""

    def __init__(self, plan):
        from cardillo import System
        from cardillo.discrete import RigidBody, Frame
        from cardillo.constraints import Revolute
        from ..scenes import FrameMotion

        self.plan = plan
        # the initial angle as the caller may hold it: a Python float, a NumPy scalar or a 0-d array (np.squeeze, np.load, ...)
        kind = plan.get("angle0_kind", "float")
        self.angle0_arg = {"float": float(plan["angle0"]), "np64": np.float64(plan["angle0"]), "np0d": np.array(plan["angle0"], dtype=float)}[kind]
        self.angle0_given = np.array(plan["angle0"], dtype=float)
        self.body1 = plan["sub1"] == "body"
        self.frame1 = plan["sub1"] == "frame"
        self.c = plan["axis"]
        placed = self.body1 or self.frame1
        A1 = rot.quat_to_mat(plan["p1"]) if placed else np.eye(3)
        r1 = np.array(plan["r1"]) if placed else np.zeros(3)
        A2 = rot.quat_to_mat(plan["p2"])
        r2 = np.array(plan["r2"])
        AJ = rot.quat_to_mat(plan["pJ"]) if plan["pJ"] is not None else A1
        rJ = np.array(plan["rJ"]) if plan["rJ"] is not None else r1
        self.A10, self.r10 = A1, r1
        self.A_K1J = A1.T @ AJ
        self.B1_r = A1.T @ (rJ - r1)
        self.A_K2J = A2.T @ AJ
        self.B2_r = A2.T @ (rJ - r2)

        system = System()
        theta = np.diag([1.0, 2.0, 3.0])
        if self.body1:
            q10 = np.concatenate([r1, rot.mat_to_quat(A1)])
            b1 = RigidBody(1.0, theta, q0=q10, name="b1")
            system.add(b1)
            s1 = b1
        elif self.frame1:
            fm = self.fm = FrameMotion({"r": plan["r1"], "p": plan["p1"], "motion": plan["motion"]})
            s1 = Frame(r_OP=fm.r, r_OP_t=fm.r_t, r_OP_tt=fm.r_tt, A_IB=fm.A, A_IB_t=fm.A_t, A_IB_tt=fm.A_tt, name="f1")
            system.add(s1)
        else:
            s1 = system.origin
        q20 = np.concatenate([r2, rot.mat_to_quat(A2)])
        u20 = np.zeros(6)
        if self.frame1:
            # start co-moving with the prescribed frame (consistent initial velocities)
            om = self.omega1(0.0)
            u20 = np.concatenate([self.fm.r_t(0.0) + np.cross(om, r2 - r1), A2.T @ om])
        b2 = RigidBody(1.0, theta, q0=q20, u0=u20, name="b2")
        joint = Revolute(
            s1,
            b2,
            axis=self.c,
            angle0=self.angle0_arg,
            r_OJ0=None if plan["rJ"] is None else rJ,
            A_IJ0=None if plan["pJ"] is None else AJ,
            name="rev",
        )
        system.add(b2, joint)
        with contextlib.redirect_stdout(io.StringIO()):
            system.assemble()
        self.system, self.joint = system, joint

    def omega1(self, t):
        """Angular velocity of the prescribed frame in the inertial basis (harness formula)."""
        fm = self.fm
        return fm.A(t) @ fm.axis * (fm.alpha * fm.w * np.cos(fm.w * t))

    def config(self, phi, Rw, tw, scale, t=0.0):
        """-> joint-local q, plus (A1, A2, e_c) computed by the harness."""
        if self.frame1:
            A1, r1 = self.fm.A(t), self.fm.r(t)
        else:
            A1 = Rw @ self.A10 if self.body1 else np.eye(3)
            r1 = Rw @ self.r10 + tw if self.body1 else np.zeros(3)
        A_IJ1 = A1 @ self.A_K1J
        rJ = r1 + A1 @ self.B1_r
        Rphi = rot.rot_axis(self.c, phi)
        if self.plan.get("exact"):
            kq = np.round(phi / HALF_PI)
            if abs(phi - kq * HALF_PI) < 1e-12:
                # an exact quarter / half / full turn: entries exactly 0 and +-1
                Rphi = np.round(Rphi)
        A_IJ2 = A_IJ1 @ Rphi
        A2 = A_IJ2 @ self.A_K2J.T
        r2 = rJ - A2 @ self.B2_r
        q2 = np.concatenate([r2, scale[1] * rot.mat_to_quat(A2)])
        if self.body1:
            q = np.concatenate([r1, scale[0] * rot.mat_to_quat(A1), q2])
        else:
            q = q2
        return q, A1, A2, A_IJ1[:, self.c]


def _quadrant(phi):
    return int(np.floor((phi % (2 * np.pi)) / HALF_PI)) % 4 + 1


def execute(plan, out, log):
    rig = Rig(plan)
    joint = rig.joint
    scale = plan["scale"]
    phi = 0.0  # true accumulated relative rotation
    offset = plan["angle0"]  # model: reported = offset + phi
    Rw, tw = np.eye(3), np.zeros(3)
    t = 0.0
    kinds = set()
    max_fwd = max_bwd = 0
    boundary = False
    if plan.get("exact"):
        out["probes"]["exact_boundary_history"] += 1
    reset_quadrants = set()
    last_quadrant = 1
    changes = 0
    pending_reset = False

    def bad(cls, sig, detail):
        out["violations"].append(violation(cls, sig, detail))

    def query(k, how="l"):
        nonlocal offset, pending_reset
        q, _, _, _ = rig.config(phi, Rw, tw, scale, t)
        f = joint.l if how == "l" else joint.angle
        val = float(f(t, q))
        log.ev("query", k, how, val)
        if pending_reset:
            # first query after a reset: a freshly built twin decides
            twin = Rig(plan)
            ref = float(twin.joint.l(t, q))
            if abs(val - ref) > 1e-12 * (1 + abs(ref)):
                bad("reset_wrong", plan["sub1"], f"op {k}: after reset l={val!r}, a freshly assembled joint reports {ref!r} at the same configuration")
            d = (val - plan["angle0"] - phi) / (2 * np.pi)
            if abs(d - np.round(d)) > 1e-9:
                bad("reset_wrong", "mod2pi", f"op {k}: after reset l={val!r} is not angle0+phi={plan['angle0'] + phi!r} modulo 2 pi")
            offset = ref - phi
            pending_reset = False
            return val
        want = offset + phi
        if abs(val - want) > TOL * (1 + abs(want)):
            bad(
                "angle_mismatch",
                f"{plan['sub1']}/axis{plan['axis']}",
                f"op {k}: reported {val!r}, accumulated {want!r} (diff {val - want:.3e}, phi={phi!r})",
            )
        return val

    arbitrary_t = plan.get("time_stamps") == "arbitrary"
    if arbitrary_t:
        out["probes"]["arbitrary_time_stamps"] += 1
    for k, op in enumerate(plan["ops"]):
        if out["violations"]:
            break
        kinds.add(op["op"])
        if arbitrary_t and op["op"] != "advance":
            t = float(((k * 0.6180339887498949) % 1.0) * 6.0 - 1.0)  # low-discrepancy, non-monotone
        if op["op"] == "rotate":
            phi += op["d"]
            r = phi / HALF_PI
            if abs(r - np.round(r)) < 1e-6:
                boundary = True
                out["probes"]["quadrant_boundary_hit"] += 1
            qd = _quadrant(phi)
            if qd != last_quadrant:
                changes += 1
                if last_quadrant == 4 and qd == 1:
                    out["probes"]["full_turn_forward"] += 1
                if last_quadrant == 1 and qd == 4:
                    out["probes"]["full_turn_backward"] += 1
            last_quadrant = qd
            max_fwd = max(max_fwd, int(phi // (2 * np.pi)))
            max_bwd = max(max_bwd, int((-phi) // (2 * np.pi)))
            query(k)
        elif op["op"] == "query":
            vals = [query(k, op["via"]) for _ in range(op["n"] + 1)]
            if any(v != vals[0] for v in vals):
                bad("query_not_idempotent", plan["sub1"], f"op {k}: repeated queries at one configuration returned {vals}")
            out["probes"]["repeated_query"] += 1
        elif op["op"] == "bad_query":
            # F1q: whatever the joint answers to a non-finite iterate (the code at hand rejects it), the rejected query
            # is not a sample of the history - the samples that follow are judged as before
            q, _, _, _ = rig.config(phi, Rw, tw, scale, t)
            q = np.array(q, dtype=float)
            if op["kind"] == "nan_all":
                q[-7:] = np.nan
            elif op["kind"] == "nan_one":
                q[-4 + k % 4] = np.nan
            else:
                q[-4 + k % 4] = np.inf
            out["faults"]["F1q_nonfinite_query"] += 1
            with warnings.catch_warnings():
                warnings.simplefilter("ignore")
                try:
                    (joint.l if op["via"] == "l" else joint.angle)(t, q)
                    log.ev("bad_query", k, op["kind"], "answered")
                    out["probes"]["nonfinite_query_answered"] += 1
                except Exception as e:
                    log.ev("bad_query", k, op["kind"], type(e).__name__)
                    out["probes"]["nonfinite_query_rejected"] += 1
        elif op["op"] == "rate":
            rate_first = rig.body1 and k % 2 == 0
            if rate_first:
                # the rate is asked for at a configuration at which the angle has not been asked for: both bodies are
                # moved together (no relative rotation) without an angle query in between
                pw = np.array(op["u1"][:4], dtype=float) + np.array([1.0, 0.0, 0.0, 0.0])
                Rw, tw = rot.quat_to_mat(pw / np.linalg.norm(pw)), np.array(op["u2"][:3], dtype=float)
                out["probes"]["rate_before_angle"] += 1
            q, A1, A2, e_c = rig.config(phi, Rw, tw, scale, t)
            u2 = np.array(op["u2"])
            if rig.body1:
                u1 = np.array(op["u1"])
                u = np.concatenate([u1, u2])
                want = e_c @ (A2 @ u2[3:] - A1 @ u1[3:])
            elif rig.frame1:
                u = u2
                want = e_c @ (A2 @ u2[3:] - rig.omega1(t))
                if abs(e_c @ rig.omega1(t)) > 1e-3:
                    out["probes"]["rate_query_on_spinning_frame"] += 1
            else:
                u = u2
                want = e_c @ (A2 @ u2[3:])
            got = float(joint.l_dot(t, q, u))
            log.ev("rate", k, got)
            if abs(got - want) > 1e-9 * (1 + abs(want)):
                bad("rate_mismatch", plan["sub1"], f"op {k}: l_dot={got!r}, relative angular velocity about the axis={want!r}")
            out["probes"]["rate_query"] += 1
            if rate_first and not out["violations"]:
                query(k)
        elif op["op"] == "wiggle":
            if rig.body1:
                Rw, tw = rot.quat_to_mat(op["p"]), np.array(op["t"])
                out["probes"]["wiggle"] += 1
                query(k)
        elif op["op"] == "advance":
            if rig.frame1:
                t += op["dt"]
                out["probes"]["frame_advanced"] += 1
                query(k)
        elif op["op"] == "reset":
            if op["via"] == "joint":
                joint.reset()
            else:
                rig.system.reset()
            pending_reset = True
            reset_quadrants.add(_quadrant(phi))
            out["probes"]["reset"] += 1
            out["probes"][f"reset_in_quadrant_{_quadrant(phi)}"] += 1
            log.ev("reset", k, op["via"])
            query(k)
    if not out["violations"] and float(rig.angle0_arg) != float(rig.angle0_given):
        bad("angle_mismatch", "caller_argument_modified", f"the angle0 object handed to the joint ({plan.get('angle0_kind')}) was changed from {float(rig.angle0_given)!r} to {float(rig.angle0_arg)!r} by querying the joint")
    if plan.get("angle0_kind", "float") != "float":
        out["probes"]["angle0_as_numpy_object"] += 1
    out["steps"] = len(plan["ops"])
    out["nontrivial"] = changes > 0
    out["abstract"] = repr(
        (plan["sub1"], plan["axis"], sorted(kinds), min(max_fwd, 4), min(max_bwd, 4), boundary, sorted(reset_quadrants))
    )


# ------------------------------------------------------------------ shrinking
def shrink(plan):
    for c in ddmin_list(plan["ops"]):
        yield dict(plan, ops=c)
    if plan["scale"] != [1.0, 1.0]:
        yield dict(plan, scale=[1.0, 1.0])
    if plan["pJ"] is not None:
        yield dict(plan, pJ=None)
    if plan["rJ"] is not None:
        yield dict(plan, rJ=None)
    if plan["angle0"] != 0.0:
        yield dict(plan, angle0=0.0)
