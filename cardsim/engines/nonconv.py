"""C21 - non-convergence is never silent (DESIGN 5.8).

Fault enumeration: a fault-free pilot run records, through the decision
hook, every loop instance actually reached (which nonlinear solve / which
fixed-point loop, at which step, which occurrence).  Each injection point
(quick: a seeded sample, thorough: all of them) is then forced to "never
converges" in a fresh run, and the solver's reaction is judged.
"""

import contextlib
import copy
import re

import numpy as np

from ..core import violation, Discard
from ..gen_scenes import gen_chain_scene, gen_contact_scene
from ..scenes import build
from ..seams import Sim
from ..session import gen_solver, project_velocities, run_solver, require_regular, t_end
from .solution import static_scene, Truss2D, backend_stop

PROPERTY = "C21"
LEVEL = "fault_enumeration"
BUDGET = {"quick": 176, "thorough": 3000}
CHUNK = 1
RUN_TIMEOUT_S = 1500
MAX_DISCARD_FRACTION = 0.5
ALL = ["Rattle", "Moreau", "BackwardEuler", "DualStormerVerlet", "Newton", "Riks", "ScipyIVP", "ScipyDAE", "Assemble"]
RULE = (
    "seeded sessions (4..20 steps) for all eight solvers on smooth and contact scenes with continue_with_unconverged on and "
    "off. A fault-free pilot run enumerates the injection points it reaches (fsolve call j of step k; Moreau / RATTLE stage "
    "1 / stage 2 / BackwardEuler / DSV fixed-point loops of step k; initial-condition fixed point); quick: a seeded sample "
    "of <= 6 points per session, thorough: every point (<= 80 per session, evenly strided beyond that). Each point is forced "
    "to 'never converges' in a fresh run (F1/F2); SciPy back ends get a back-end stop (F4) at a seeded time. Oracle: raise, "
    "or return converged steps only together with a warning naming the stop time / step; with continue_with_unconverged: "
    "warn and cover the whole grid, or raise. Organic failures of the pilot are judged by the same oracle. Differential "
    "runs (feature present vs. ablated) decide 'does not silently ignore': unilateral contact, actuator torque. "
    "distinct = (solver, continue flag, scene kind, injected site group, first/inner occurrence, reaction class); "
    "non-trivial = at least one injected fault actually fired or one feature differential executed"
)
RULE += " A ninth session kind drives the contact fixed point of consistent_initial_conditions (inside System.assemble) into failure - forced, by budget, or by a diverging prox parameter - with continue_with_unconverged on / off: raise or warn, never silent." + " A third of the contact sessions use a prox parameter beyond the contraction range (prox_scaling in [2, 4], legal): the contact fixed point then fails organically as soon as a contact closes, and the same oracle judges the solver's reaction."
RULE += " Fault F1n (half of the Newton / Rattle / BackwardEuler sessions): a user force law evaluates to NaN from a time or load level on; the reaction oracle applies to the reported failure, and a nonlinear solve that reports success for a non-finite solution followed by a silent return of non-finite rows is a violation."
RULE += " RATTLE / BackwardEuler sessions with a Newton budget of 1-2 iterations in both Newton variants of RATTLE (organic failure); every nonlinear solve is held to the configured newton_max_iter."
COMPONENTS = {
    "real": ["all eight solvers", "fsolve", "every fixed-point loop (through the guarded decision hook)", "scipy / scipy_dae back ends (run for real up to the stop time)"],
    "stub": ["tqdm -> SimProgress (step seam)", "warnings / stdout captured (warnings are the observable)"],
    "model": ["reaction oracle over the recorded event history (decisions, warnings with sequence numbers, returned Solution or exception)"],
}
ASSUMPTIONS = [
    "a warning 'names the time' if it contains a number equal (3 significant digits) to the last returned time or the failed step's target time, or the step index; fsolve's own generic warning does not count for this clause",
    "fixed_point_max_iter = 50 in these sessions so that exhausted loops stay cheap",
]
REQUIRED_PROBES = {"quick": ["fault_fired", "reaction_raise", "reaction_warn_and_return", "reaction_continue", "feature_differential"]}


def gen(rng, tier, index):
    name = ALL[index % len(ALL)]
    cont = bool((index // len(ALL)) % 2)
    plan = {"solver_name": name, "continue": cont, "sample_seed": int(rng.integers(2**31)), "all_points": tier == "thorough", "feature": None}
    plan["poison"] = bool((index // (2 * len(ALL))) % 2 == 0)  # fault F1n in half of the Newton / Rattle / BackwardEuler sessions
    if name == "Assemble":
        # the contact fixed point of consistent_initial_conditions (solver/_base.py) runs inside System.assemble
        plan["scene_kind"] = "initial_conditions"
        plan["scene"] = gen_contact_scene(rng, nspheres=int(rng.integers(1, 3)))
        plan["how"] = str(rng.choice(["forced", "budget", "diverge"]))
        plan["max_iter"] = int(rng.integers(1, 4))
        return plan
    if name == "Newton":
        plan["scene_kind"] = "static"
        plan["scene"] = static_scene(rng)
        plan["n_load_steps"] = int(rng.integers(2, 7))
        if rng.random() < 0.25:
            plan["feature"] = "actuator"
        plan["verbose"] = bool(rng.random() < 0.5)  # legal knob: progress output on / off must not change what is reported
        return plan
    if name == "Riks":
        plan["scene_kind"] = "truss"
        plan["truss"] = {"k": float(rng.uniform(0.5, 2)), "phi0": float(rng.uniform(0.5, 1.0)), "w": 1.0}
        plan["la_arc0"] = float(rng.choice([1e-4, 1e-3]))
        plan["span"] = [-1.0, float(rng.uniform(0.2, 0.6))]
        return plan
    contact = name in ("Rattle", "Moreau", "BackwardEuler", "DualStormerVerlet") and rng.random() < 0.5
    x = rng.random()
    budget_session = name in ("Rattle", "BackwardEuler") and (index // len(ALL)) % 4 == 3
    if budget_session:
        contact, x = False, 1.0  # smooth chain scene
    if x < 0.2:
        plan["feature"] = "contact"
        plan["scene_kind"] = "feature_contact"
        plan["scene"] = feature_contact_scene(rng)
        steps, dt = 30, 0.01
    elif x < 0.4:
        plan["feature"] = "actuator"
        plan["scene_kind"] = "feature_actuator"
        plan["scene"] = feature_actuator_scene(rng)
        steps, dt = 12, 0.01
    else:
        if contact:
            plan["scene_kind"] = "contact"
            plan["scene"] = gen_contact_scene(rng, nspheres=int(rng.integers(1, 3)))
        else:
            plan["scene_kind"] = "chain"
            plan["scene"] = gen_chain_scene(rng, nbodies=int(rng.integers(1, 3)), allow_loop=False)
        steps = int(rng.integers(4, 20))
        dt = float(10 ** rng.uniform(-2.7, -2.0))
    spec = gen_solver(rng, name, steps, dt, tight=False, buggify=False, contacts=contact)
    if name not in ("ScipyIVP", "ScipyDAE"):
        spec["options"].update(fixed_point_max_iter=50, continue_with_unconverged=cont)
        if plan["scene_kind"] == "contact" and rng.random() < 0.35:
            # legal knob (only > 0 is required): a prox parameter beyond the contraction range makes the contact
            # fixed point oscillate / diverge organically as soon as a contact closes
            spec["options"]["prox_scaling"] = float(rng.uniform(2.0, 4.0))
            plan["organic"] = True
    else:
        plan["stop_frac"] = float(rng.uniform(0.2, 0.8))
    if budget_session:
        # legal knobs: a Newton budget of one or two iterations (organic failure of the first nonlinear step) and, for
        # RATTLE, either of its two Newton variants (chord iteration with a reused factorisation / full Newton)
        spec["options"]["newton_max_iter"] = 1 + (index // (4 * len(ALL))) % 2
        spec["options"]["reuse_lu_decomposition"] = bool((index // (8 * len(ALL))) % 2)
        plan["organic"] = True
    plan["solver"] = spec
    return plan


def feature_contact_scene(rng):
    """A ball dropped onto a plane: the contact closes during the run."""
    h = float(rng.uniform(0.02, 0.08))
    b = {"kind": str(rng.choice(["rigid", "point"])), "m": 1.0, "r": [0.0, 0.0, 0.1 + h], "v": [float(rng.uniform(-0.5, 0.5)), 0.0, -1.0]}
    if b["kind"] == "rigid":
        b.update(theta=[0.004, 0.004, 0.004], p=[1.0, 0, 0, 0], w=[0.0, 0.0, 0.0])
    return {
        "t0": 0.0,
        "bodies": [b],
        "frames": [],
        "joints": [],
        "tpis": [],
        "laws": [],
        "actuators": [],
        "forces": [],
        "gravity": [0, 0, -9.81],
        "contacts": [{"type": "s2p", "plane": {"r": [0, 0, 0], "p": [1.0, 0, 0, 0]}, "body": 0, "radius": 0.1, "mu": float(rng.choice([0.0, 0.3])), "eN": 0.0, "eF": 0.0}],
    }


def feature_actuator_scene(rng):
    """A rigid pendulum on a revolute joint driven by a motor torque."""
    b = {"kind": "rigid", "m": 1.0, "theta": [0.1, 0.12, 0.15], "r": [0.5, 0.0, 0.0], "p": [1.0, 0, 0, 0], "v": [0, 0, 0], "w": [0, 0, 0]}
    return {
        "t0": 0.0,
        "bodies": [b],
        "frames": [],
        "joints": [{"type": "revolute", "a": "origin", "b": ["body", 0], "axis": 2, "rJ": [0, 0, 0], "pJ": None, "angle0": 0.0}],
        "tpis": [],
        "laws": [{"type": "spring", "on": ["joint", 0], "k": 2.0, "l_ref": 0.0, "compliance": False}],
        "actuators": [{"type": "motor", "joint": 0, "tau": float(rng.uniform(2, 6)), "time": "const"}],
        "forces": [],
        "contacts": [],
    }


# ------------------------------------------------------------------ one (possibly faulted) run
class Outcome:
    pass


def one_run(plan, log, faults=(), stop_frac=None, scene=None, out=None, poison=None):
    from cardillo import System
    from cardillo.solver import SolverOptions, Newton, Riks

    name = plan["solver_name"]
    sim = Sim(log, faults=faults)
    O = Outcome()
    O.sim, O.sol, O.exc, O.B = sim, None, None, None
    O.n_expected = None
    extra = None
    O.solves = []  # (event sequence number, success, solution finite) of every fsolve call (poison runs)
    patched = []
    if poison is not None:
        import importlib
        from ..custom import PoisonedForce

        extra = lambda B: [PoisonedForce(B.bodies[0], poison)]

        def wrapped(orig):
            def f(*a, **k):
                r = orig(*a, **k)
                fin = bool(np.all(np.isfinite(r.x)) and np.all(np.isfinite(np.asarray(r.fun, dtype=float))))
                O.solves.append((log.ev("fsolve_returned", bool(r.success), fin), bool(r.success), fin))
                return r

            return f

        for mn in ("cardillo.solver.statics", "cardillo.solver.rattle", "cardillo.solver.backward_euler"):
            m = importlib.import_module(mn)
            patched.append((m, m.fsolve))
            m.fsolve = wrapped(m.fsolve)
    with sim.installed():
        try:
            if name == "Newton":
                B = build(scene or plan["scene"], options=SolverOptions(compute_consistent_initial_conditions=False), extra=extra)
                O.B = B
                opts = SolverOptions(newton_atol=1e-8, newton_rtol=1e-8, newton_max_iter=25, continue_with_unconverged=plan["continue"])
                O.t_grid = np.linspace(0, 1, plan["n_load_steps"] + 1)
                O.n_expected = plan["n_load_steps"] + 1
                O.sol = Newton(B.system, n_load_steps=plan["n_load_steps"], verbose=plan.get("verbose", True), options=opts).solve()
            elif name == "Riks":
                system = System()
                tr = plan["truss"]
                system.add(Truss2D(tr["k"], tr["phi0"], tr["w"]))
                system.assemble()
                O.t_grid = None
                O.sol = Riks(
                    system,
                    la_arc_span=np.array(plan["span"]),
                    la_arc0=plan["la_arc0"],
                    iter_goal=3,
                    max_load_steps=60,
                    options=SolverOptions(newton_atol=1e-8, newton_rtol=1e-8, continue_with_unconverged=plan["continue"]),
                ).solve()
            else:
                sc = project_velocities(scene or plan["scene"])
                B = build(sc, extra=extra)
                O.B = B
                require_regular(B)
                spec = plan["solver"]
                O.t_grid = B.system.t0 + spec["dt"] * np.arange(spec["steps"] + 1)
                O.n_expected = spec["steps"] + 1
                cm = backend_stop(name, stop_frac, out) if stop_frac is not None else contextlib.nullcontext()
                with cm:
                    R = run_solver(B, spec, sim, record=False)
                O.sol, O.exc = R.sol, R.exc
        except Discard:
            raise
        except Exception as e:
            O.exc = e
        finally:
            for m, f in patched:
                m.fsolve = f
    return O


NUM = re.compile(r"[-+]?\d+\.?\d*(?:[eE][-+]?\d+)?")


def names_time(text, candidates, step_idx):
    if text.startswith("fsolve is not converged"):
        return False
    for tok in NUM.findall(text):
        try:
            x = float(tok)
        except ValueError:
            continue
        for c in candidates:
            if c is not None and abs(x - c) <= 2e-3 * max(abs(c), 1e-3) + 1e-12:
                return True
        if "." not in tok and "e" not in tok.lower() and int(x) in step_idx:
            return True
    return False


def judge(plan, O, out, forced, stopped_at=None):
    """Reaction oracle.  ``forced``: the injected fault (or None: pilot)."""
    name = plan["solver_name"]
    cont = plan["continue"]
    sim = O.sim
    failed = sorted(sim.failed_instances(), key=lambda i: i[6])
    backend_failed = stopped_at is not None
    if not failed and not backend_failed:
        return "no_failure"
    if failed:
        f = failed[0]
        group, k, occ, first_seq = f[0], f[1], f[2], f[6]
        ctx = "first" if occ == 1 else "inner"
        if name == "Newton" and not plan.get("verbose", True):
            # without progress output the static solver does not pass the step seam (tqdm); it calls fsolve exactly
            # once per load step, so the j-th call is iteration j of the load-step loop
            k, ctx = occ, "first"
    else:
        group, k, occ, first_seq, ctx = "backend", None, 1, 0, "stop"
    sig = f"{name}/{group}/{ctx}"
    if O.exc is not None:
        out["probes"]["reaction_raise"] += 1
        return "raise"
    sol = O.sol
    after = [w for w in sim.warnings if w[0] > first_seq]
    nt = len(sol.t)
    if name == "Riks":
        # Riks asserts convergence; a return after a failed solve is silent by construction
        out["violations"].append(violation("silent_truncation", sig, f"Riks returned {nt} points although a Newton solve failed; warnings after the failure: {[w[2][:60] for w in after]}"))
        return "violation"
    tg = O.t_grid
    if backend_failed:
        t_fail, t_prev = stopped_at, None
    else:
        t_fail = float(tg[k]) if (k is not None and 0 < k < len(tg)) else None
        t_prev = float(tg[k - 1]) if (k is not None and k >= 1) else None
        if name == "Newton":
            # load step i is iteration k = i + 1 of the loop
            t_fail = float(tg[k - 1]) if k >= 1 else None
            t_prev = float(tg[k - 2]) if k >= 2 else None
    complete = nt == O.n_expected
    if cont and not backend_failed:
        if not after:
            out["violations"].append(violation("continue_without_warning", sig, f"continue_with_unconverged=True: {group} failed at step {k} and the run went on without any warning"))
            return "violation"
        if not complete:
            out["violations"].append(violation("silent_truncation", sig + "/continue", f"continue_with_unconverged=True but only {nt} of {O.n_expected} instants were returned"))
            return "violation"
        out["probes"]["reaction_continue"] += 1
        return "continue"
    # continue_with_unconverged = False (or a back-end stop): only converged steps + warning naming the time
    if complete and not backend_failed:
        out["violations"].append(
            violation("unconverged_step_returned", sig, f"{group} failed at step {k} (continue_with_unconverged=False) but the solver returned the complete grid of {nt} instants without raising")
        )
        return "violation"
    t_last = float(sol.t[-1]) if nt else None
    if not backend_failed:
        limit = t_prev if t_prev is not None else -np.inf
        if name == "Newton":
            n_ok = k - 1  # load steps 0..k-2 converged
            if nt > n_ok:
                out["violations"].append(violation("unconverged_step_returned", sig, f"load step {k - 1} did not converge, yet {nt} load steps were returned (only {n_ok} converged)"))
                return "violation"
        elif t_last is not None and t_last > limit + 1e-9 * max(1.0, abs(limit)):
            out["violations"].append(violation("unconverged_step_returned", sig, f"step {k} (t={t_fail}) did not converge, yet the returned solution ends at t={t_last}"))
            return "violation"
    elif t_last is not None and t_last > stopped_at + 1e-9 * max(1.0, abs(stopped_at)):
        # the back end integrated up to stopped_at only: anything later was never computed
        out["violations"].append(
            violation("unconverged_step_returned", sig, f"the back end stopped at t={stopped_at}, yet the returned solution has {nt} instants and ends at t={t_last} (nothing beyond the stop time was integrated)")
        )
        return "violation"
    solver_warnings = [w for w in after if not w[2].startswith("fsolve is not converged")]
    cands = [t_last, t_fail, t_prev]
    steps_ok = {k, k - 1} if k is not None else set()
    if not any(names_time(w[2], cands, steps_ok) for w in after):
        if not solver_warnings:
            out["violations"].append(
                violation(
                    "silent_truncation",
                    sig,
                    f"{group} failed at step {k}: the solver returned {nt} of {O.n_expected} instants (up to t={t_last}) without raising and without a warning of its own (warnings after the failure: {[w[2][:50] for w in after]})",
                )
            )
        else:
            out["violations"].append(violation("warning_without_time", sig, f"truncated return at t={t_last}; warnings {[w[2][:80] for w in solver_warnings]} do not name the stop time or step"))
        return "violation"
    out["probes"]["reaction_warn_and_return"] += 1
    return "warn_and_return"


# ------------------------------------------------------------------ feature differentials
def ablate(scene, feature):
    sc = copy.deepcopy(scene)
    if feature == "contact":
        sc["contacts"] = []
    elif feature == "actuator":
        sc["actuators"] = []
    return sc


def feature_check(plan, out, log):
    name, feature = plan["solver_name"], plan["feature"]
    if name == "Newton":
        scene = feature_actuator_scene(np.random.Generator(np.random.PCG64(plan["sample_seed"])))
    else:
        scene = plan["scene"]
    O1 = one_run(plan, log, scene=scene, out=out)
    out["probes"]["feature_differential"] += 1
    if O1.exc is not None or O1.sim.warnings and any(feature[:6] in w[2].lower() or "not supported" in w[2].lower() or "ignored" in w[2].lower() for w in O1.sim.warnings):
        out["probes"]["feature_refused_or_warned"] += 1
        return
    O2 = one_run(plan, log, scene=ablate(scene, feature), out=out)
    if O2.exc is not None:
        raise Discard("ablated_run_failed")
    q1, q2 = np.asarray(O1.sol.q), np.asarray(O2.sol.q)
    m = min(len(q1), len(q2))
    same = q1.shape[1] == q2.shape[1] and np.max(np.abs(q1[:m] - q2[:m])) < 1e-12
    detail = None
    if feature == "contact":
        gN = O1.B.system.g_N(float(O1.sol.t[-1]), q1[-1])
        # velocity-level schemes legitimately let a closing contact overshoot by about v*dt; "fell through" means far beyond that
        if same or np.min(gN) < -0.05:
            detail = f"the unilateral contact has no effect (identical to the run without it: {same}; final gap {float(np.min(gN)):.3e}: the ball fell through the plane)"
    elif same:
        detail = f"the actuator torque {scene['actuators'][0]['tau']:.2f} has no effect: the trajectory is identical to the run without the actuator"
    if detail:
        out["violations"].append(violation("ignored_feature", f"{name}/{feature}", f"{name} accepted a model with a {feature} without raising or warning, and {detail}"))
    else:
        out["probes"]["feature_has_effect"] += 1


# ------------------------------------------------------------------ executor
def execute_assemble(plan, out, log):
    """Fault F2 at the initial-condition fixed point: forced through the hook, organic through a tiny iteration budget or
    through a prox parameter beyond the contraction range; with continue_with_unconverged on / off.  Reaction: raise, or
    warn; returning silently is a violation (whatever the returned numbers are)."""
    from cardillo.solver import SolverOptions

    how, cont = plan["how"], plan["continue"]
    kw = dict(fixed_point_atol=1e-10, continue_with_unconverged=cont)
    if how == "forced":
        kw["fixed_point_max_iter"] = 50
    elif how == "budget":
        kw["fixed_point_max_iter"] = plan["max_iter"]
    else:
        kw.update(fixed_point_max_iter=200, prox_scaling=3.0)
    sim = Sim(log, faults=[("ic.fp", 0, 1)] if how == "forced" else [])
    with sim.installed():
        try:
            build(plan["scene"], options=SolverOptions(**kw))
            raised = None
        except (AssertionError, RuntimeError, ValueError) as e:
            raised = e
    failed = [i for i in sim.failed_instances() if i[0] == "ic.fp"]
    if not failed:
        out["probes"]["ic_fault_not_reached"] += 1  # no persistent contact at t0, or the budget sufficed
        out["abstract"] = repr(("Assemble", how, cont, "no_failure"))
        return
    out["faults"]["F2_fixed_point_failure" if how == "forced" else "F2o_organic_fixed_point_failure"] += 1
    out["probes"]["fault_fired"] += 1
    if raised is not None:
        r = "raise"
        out["probes"]["reaction_raise"] += 1
    elif any(w[0] > failed[0][6] for w in sim.warnings):
        r = "warn"
        out["probes"]["reaction_warn_and_return"] += 1
    else:
        r = "silent"
        out["violations"].append(
            violation("silent_ic_failure", f"consistent_initial_conditions/{how}", f"the contact fixed point of consistent_initial_conditions did not converge ({how}, continue_with_unconverged={cont}) and System.assemble returned without raising and without a warning")
        )
    out["nontrivial"] = True
    out["abstract"] = repr(("Assemble", how, cont, r))


def execute(plan, out, log):
    name = plan["solver_name"]
    if name == "Assemble":
        return execute_assemble(plan, out, log)
    reactions = set()
    if plan.get("feature"):
        feature_check(plan, out, log)
        out["nontrivial"] = True
        out["abstract"] = repr((name, "feature", plan["feature"], bool(out["violations"])))
        return
    # ---------------- pilot
    pilot = one_run(plan, log, out=out)
    if pilot.exc is not None and not pilot.sim.failed_instances():
        raise Discard(f"pilot_raised:{name}:{type(pilot.exc).__name__}")
    r = judge(plan, pilot, out, None)
    reactions.add(("pilot", r))
    # the configured iteration budget is part of "fails": a nonlinear solve that is still iterating after
    # newton_max_iter iterations has failed, whatever it reports later
    budget = 25 if name == "Newton" else (plan.get("solver", {}).get("options", {}).get("newton_max_iter", 20) if name in ("Rattle", "BackwardEuler") else None)
    if budget is not None and not out["violations"]:
        over = [i for i in pilot.sim.instances if i[0] == "fsolve" and i[5] - 1 > budget]
        out["probes"]["newton_budget_checked"] += 1
        if over:
            out["violations"].append(
                violation(
                    "iteration_budget_ignored",
                    f"{name}/reuse_lu={plan.get('solver', {}).get('options', {}).get('reuse_lu_decomposition', 'default')}",
                    f"newton_max_iter={budget}, yet nonlinear solve {over[0][2]} of step {over[0][1]} made {over[0][5] - 1} iterations and went on ({len(over)} such solves; reaction of the run: {r})",
                )
            )
    if r != "no_failure":
        out["probes"]["organic_failure_judged"] += 1
        out["faults"]["F2o_organic_fixed_point_failure" if pilot.sim.failed_instances()[0][0] != "fsolve" else "F1o_organic_newton_failure"] += 1
    if out["violations"]:
        return
    if pilot.sol is not None and hasattr(pilot.sol, "t"):
        out["steps"] += max(len(pilot.sol.t) - 1, 0)
    # ---------------- injection points
    if name in ("ScipyIVP", "ScipyDAE"):
        frac = plan["stop_frac"]
        O = one_run(plan, log, stop_frac=frac, out=out)
        tg = O.t_grid
        tau = float(tg[0] + frac * (tg[-1] - tg[0]))
        out["probes"]["fault_fired"] += 1
        r = judge(plan, O, out, ("backend", frac), stopped_at=tau)
        reactions.add(("backend", r))
    else:
        points = [(i[0], i[1], i[2]) for i in pilot.sim.instances]
        points = sorted(set(points), key=lambda p: (p[1], p[0], p[2]))
        out["probes"]["injection_points_seen"] += len(points)
        if plan["all_points"]:
            if len(points) > 80:
                stride = len(points) / 80.0
                points = [points[int(i * stride)] for i in range(80)]
        else:
            prng = np.random.Generator(np.random.PCG64(plan["sample_seed"]))
            # one point per site group first, then random ones
            chosen = []
            for g in sorted({p[0] for p in points}):
                cand = [p for p in points if p[0] == g]
                chosen.append(cand[int(prng.integers(len(cand)))])
                inner = [p for p in cand if p[2] > 1]
                if inner:
                    chosen.append(inner[int(prng.integers(len(inner)))])
            chosen = chosen[:6]
            while len(chosen) < min(6, len(points)):
                p = points[int(prng.integers(len(points)))]
                if p not in chosen:
                    chosen.append(p)
            points = chosen
        for p in points:
            O = one_run(plan, log, faults=[p], out=out)
            if p in O.sim.fired:
                out["faults"]["F1_newton_failure" if p[0] == "fsolve" else "F2_fixed_point_failure"] += 1
                out["probes"]["fault_fired"] += 1
            else:
                out["probes"]["fault_not_reached"] += 1
                continue
            r = judge(plan, O, out, p)
            reactions.add((p[0], "first" if p[2] == 1 else "inner", r))
            log.ev("faulted_run", list(p), r)
            if out["violations"]:
                # keep the failing injection point in the plan for the replay
                return
    if plan.get("poison") and name in ("Newton", "Rattle", "BackwardEuler") and not out["violations"] and pilot.sol is not None and len(pilot.sol.t) >= 2:
        r = poison_run(plan, pilot, out, log)
        reactions.add(("poison", r))
    out["nontrivial"] = out["probes"]["fault_fired"] > 0
    out["abstract"] = repr((name, plan["continue"], plan.get("scene_kind"), tuple(sorted(reactions))))


def poison_run(plan, pilot, out, log):
    """Fault F1n: from a time / load level on a user force law evaluates to NaN.  Every nonlinear solve that meets it
    has failed; the reaction oracle applies.  In particular a solve that reports success for a non-finite iterate,
    followed by a silent return of non-finite rows, is a failed solve that was passed off as converged."""
    name = plan["solver_name"]
    tg = pilot.t_grid
    k_p = 1 + plan["sample_seed"] % (len(tg) - 1)
    t_p = float(0.5 * (tg[k_p - 1] + tg[k_p]))
    O = one_run(dict(plan, verbose=True), log, out=out, poison=t_p)
    out["faults"]["F1n_nonfinite_model_evaluation"] += 1
    log.ev("poison_run", k_p, t_p, O.exc is not None, len(O.sim.failed_instances()))
    if O.exc is not None:
        out["probes"]["poison_reaction_raise"] += 1
        return "raise"
    if O.sim.failed_instances():
        out["probes"]["poison_failure_reported"] += 1
        return "poison/" + str(judge(dict(plan, verbose=True), O, out, ("poison", k_p)))
    sol = O.sol
    rows = [i for i in range(len(sol.t)) if not (np.all(np.isfinite(sol.q[i])) and (sol.u is None or np.all(np.isfinite(sol.u[i]))))]
    bad = [s for s in O.solves if s[1] and not s[2]]
    if bad:
        after = [w for w in O.sim.warnings if w[0] > bad[0][0]]
        if not after:
            out["violations"].append(
                violation(
                    "nonfinite_declared_converged",
                    name,
                    f"a force law evaluates to NaN from t={t_p:.6g} on: {len(bad)} nonlinear solves reported success although their residual or solution is non-finite, no error was raised, no warning followed, and {len(sol.t)} instants were returned ({len(rows)} of them non-finite)",
                )
            )
            return "violation"
    out["probes"]["poison_no_claim"] += 1
    return "no_claim"


def shrink(plan):
    sc = plan.get("scene")
    so = plan.get("solver")
    if so and so["steps"] > 2 and not plan.get("feature"):
        yield dict(plan, solver=dict(so, steps=max(2, so["steps"] // 2)))
    if sc and not plan.get("feature"):
        for key in ("forces", "actuators", "laws", "contacts"):
            for i in range(len(sc.get(key, [])) - 1, -1, -1):
                new = dict(sc)
                new[key] = sc[key][:i] + sc[key][i + 1 :]
                yield dict(plan, scene=new)
    if plan.get("n_load_steps", 0) > 2:
        yield dict(plan, n_load_steps=plan["n_load_steps"] - 1)
