"""C26 - memoised kinematic evaluations are transparent (DESIGN 5.12).

Interleaving machine: the same operation history is applied to the real,
memoising objects and to a twin built from the same plan whose caches are
all replaced by ``LRUCache(maxsize=0)`` (never stores).  Every evaluation
must agree exactly (same floating-point operations on both sides).
"""

import contextlib
import io

import numpy as np

from ..core import violation, ddmin_list
from .. import rot
from ..rods import gen_rod_spec, build_rod

PROPERTY = "C26"
LEVEL = "exploration"
BUDGET = {"quick": 2400, "thorough": 150000}
CHUNK = 20
RUN_TIMEOUT_S = 1500
RULE = (
    "seeded histories (10..120 ops) per cached object kind {RigidBody, Sphere2Sphere (rigid bodies / point masses), "
    "Cosserat rod (3 interpolations x mixed/displacement-based x constrained), Mesh1D.eval_basis}; ops = evaluations "
    "of every memoised method and of methods built on them with t,q,u,xi,B_r_CP,la drawn from pools of 2..4 values "
    "(incl. -0.0/0.0, int/float/tuple xi, element boundaries with and without explicit element, positional vs keyword "
    "call styles) interleaved with step_callback, set_reference_strains, re-assembly/set_new_initial_state, and "
    "scribbling over the caller's own argument arrays after the call; oracle = unmemoised twin (exact equality). "
    "distinct = (target kind and variant, set of (method, hit/miss) pairs seen, set of state-changing ops); "
    "non-trivial = at least one cache hit and one eviction/miss after a hit"
)
RULE += " Sphere2Sphere targets may have a partner moved explicitly in time (same q, different t) and a second contact on the same free sphere (identical local coordinates); caches that live on a class instead of the instance are emptied before every evaluation of the twin."
RULE += " A third of the histories hand over the caller's own argument buffers (the same array objects refilled in place) instead of fresh arrays."
COMPONENTS = {
    "real": [
        "cardillo.discrete.RigidBody",
        "cardillo.contacts.Sphere2Sphere",
        "cardillo.rods (make_CosseratRod, all interpolations)",
        "cardillo.rods.discretization.Mesh1D",
        "cachetools.LRUCache (counting subclass with identical behaviour on the memoised side)",
    ],
    "stub": [],
    "model": ["twin objects with LRUCache(maxsize=0)"],
}
ASSUMPTIONS = [
    "arrays returned by evaluations are not mutated by the caller (cached objects are shared by design)",
]
REQUIRED_PROBES = {"quick": ["cache_hit", "cache_miss_after_hit", "op_step_callback", "op_reassemble", "op_set_reference_strains"]}


# --------------------------------------------------------------- cache plumbing
def _lru_classes():
    from cachetools import LRUCache

    class CountingLRU(LRUCache):
        """Same behaviour as LRUCache; counts hits and misses."""

        def __init__(self, maxsize, stats):
            super().__init__(maxsize)
            self.stats = stats

        def __getitem__(self, key):
            try:
                v = super().__getitem__(key)
            except KeyError:
                self.stats["miss"] += 1
                raise
            self.stats["hit"] += 1
            return v

    return LRUCache, CountingLRU


def _walk(obj, seen, depth=3):
    if id(obj) in seen or depth < 0:
        return
    seen.add(id(obj))
    yield obj
    for name, val in list(vars(obj).items()) if hasattr(obj, "__dict__") else []:
        mod = type(val).__module__ or ""
        if mod.startswith("cardillo") and not name.startswith("__"):
            yield from _walk(val, seen, depth - 1)


def clear_class_level_caches(objs):
    """A cache that is shared by all instances of a class (class attribute) cannot be replaced on the twin only;
    it is emptied before each evaluation of the twin instead, so that the twin still computes afresh."""
    from cachetools import Cache

    seen = set()
    for root in objs:
        for o in _walk(root, seen):
            for klass in type(o).__mro__:
                for name, val in list(vars(klass).items()):
                    if isinstance(val, Cache):
                        val.clear()


def instrument(objs, memo, stats):
    """memo=True: swap every LRUCache for a counting one of the same size;
    memo=False: swap every cache for one that never stores."""
    LRUCache, CountingLRU = _lru_classes()
    from cachetools import Cache

    n = 0
    seen = set()
    for root in objs:
        for o in _walk(root, seen):
            for name, val in list(vars(o).items()):
                if isinstance(val, Cache):
                    if memo:
                        if type(val) is LRUCache:
                            setattr(o, name, CountingLRU(val.maxsize, stats))
                    else:
                        setattr(o, name, LRUCache(maxsize=0))
                    n += 1
    return n


# ------------------------------------------------------------------ generator
def _pool_t(rng):
    return [0.0, float(rng.uniform(0, 2)), float(rng.uniform(0, 2))][: int(rng.integers(2, 4))]


def _rb_state(rng):
    p = rot.rand_quat(rng) * float(rng.uniform(0.7, 1.4))
    q = np.concatenate([rng.uniform(-1, 1, 3), p])
    if rng.random() < 0.3:
        q[int(rng.integers(3))] = float(rng.choice([0.0, -0.0]))
    return q


def _gen_rigid(rng):
    npool = int(rng.integers(2, 5))
    pool = {
        "t": _pool_t(rng),
        "q": [_rb_state(rng).tolist() for _ in range(npool)],
        "u": [rng.normal(size=6).tolist() for _ in range(npool)],
        "B": [[0.0, 0.0, 0.0]] + [rng.uniform(-1, 1, 3).tolist() for _ in range(npool - 1)],
    }
    # the same position with 0.0 / -0.0 must not be confused with a different state
    q2 = list(pool["q"][0])
    q2[0] = 0.0
    pool["q"][0][0] = -0.0
    pool["q"].append(q2)
    if rng.random() < 0.5:
        # arguments that differ in one entry only, by values whose hashes coincide in CPython (hash(-1.0) == hash(-2.0),
        # hash(1.0) == hash(2.0**61)): a memo keyed by a hash instead of the values cannot tell them apart
        qa = _rb_state(rng)
        qa[0] = -1.0
        qb = qa.copy()
        qb[0] = -2.0
        ua = rng.normal(size=6)
        ua[1] = -1.0
        ub = ua.copy()
        ub[1] = -2.0
        pool["q"] = [qa.tolist(), qb.tolist()] + pool["q"][:1]
        pool["u"] = [ua.tolist(), ub.tolist()] + pool["u"][:1]
        pool["B"] = [[0.0, 0.0, -1.0], [0.0, 0.0, -2.0]] + pool["B"][:1]
        pool["t"] = [-1.0, -2.0, 0.0]
        pool["hash_twins"] = True
    methods = ["A_IB", "A_IB_q", "r_OP", "v_P", "J_P", "r_OP_q", "v_P_q", "a_P", "J_P_q", "kappa_P"]
    return {"target": "rigid", "pool": pool, "methods": methods, "state_ops": ["step_callback"]}


def _gen_s2s(rng):
    kinds = [str(rng.choice(["rigid", "point"])) for _ in range(2)]
    npool = int(rng.integers(2, 5))
    r1, r2 = float(rng.uniform(0.1, 0.4)), float(rng.uniform(0.1, 0.4))
    frame = None
    if rng.random() < 0.35:
        # one partner is a sphere moved explicitly in time (a Frame without coordinates of its own): the contact
        # kinematics then depend on t at fixed q
        kinds[int(rng.integers(2))] = "frame"
        frame = {"c": rng.uniform(-0.5, 0.5, 3).tolist(), "amp": (rng.normal(size=3) * 0.3 * (r1 + r2)).tolist(), "w": float(rng.uniform(1, 4))}
        if rng.random() < 0.6:
            # a second moved obstacle against the same free sphere: two contacts with identical local coordinates
            frame["second"] = {"dir": rng.normal(size=3).tolist(), "amp": (rng.normal(size=3) * 0.2 * (r1 + r2)).tolist(), "w": float(rng.uniform(1, 4)), "radius": float(rng.uniform(0.1, 0.4))}

    def state():
        parts, uparts = [], []
        c1 = rng.uniform(-0.5, 0.5, 3)
        d = rng.normal(size=3)
        d /= np.linalg.norm(d)
        c2 = c1 + d * (r1 + r2) * float(rng.uniform(1.02, 2.0))
        if frame is not None:
            # keep the free sphere clear of the whole path of the moved one
            cf = np.array(frame["c"])
            reach = float(np.linalg.norm(frame["amp"]))
            cb = cf + d * ((r1 + r2) * float(rng.uniform(1.05, 2.0)) + reach)
            c1, c2 = (cf, cb) if kinds[0] == "frame" else (cb, cf)
            if frame.get("second") and "centre" not in frame["second"]:
                # placed once, on the far side of the first pool state of the free sphere, clear of everything
                d2 = np.array(frame["second"]["dir"])
                d2 = d2 / np.linalg.norm(d2)
                frame["second"]["centre"] = (cb + d2 * (3.0 + float(np.linalg.norm(frame["second"]["amp"])))).tolist()
        for k, c in zip(kinds, (c1, c2)):
            if k == "frame":
                continue
            if k == "rigid":
                parts.append(np.concatenate([c, rot.rand_quat(rng)]))
                uparts.append(rng.normal(size=6))
            else:
                parts.append(c)
                uparts.append(rng.normal(size=3))
        return np.concatenate(parts).tolist(), np.concatenate(uparts).tolist()

    qs, us = zip(*[state() for _ in range(npool)])
    pool = {
        "t": _pool_t(rng),
        "q": list(qs),
        "u": list(us),
        "la": [rng.normal(size=2).tolist() for _ in range(2)],
        "laN": [[float(rng.uniform(0, 2))] for _ in range(2)],
    }
    methods = [
        "n",
        "n_q1_q2",
        "t1t2",
        "t1t2_q1_q2",
        "gamma_F",
        "gamma_F_q",
        "W_F",
        "Wla_F_q",
        "g_N_dot",
        "W_N",
        "Wla_N_q",
        "gamma_F_dot",
        "g_N",
        "sys_gamma_F",
        "sys_W_F",
    ]
    return {
        "target": "s2s",
        "kinds": kinds,
        "frame": frame,
        "radii": [r1, r2],
        "mu": float(rng.uniform(0.1, 1.0)),
        "pool": pool,
        "methods": methods,
        "state_ops": ["step_callback", "sys_step_callback", "reassemble"],
    }


def _gen_rod(rng):
    spec = gen_rod_spec(rng)
    npool = int(rng.integers(2, 4))
    nel = spec["nel"]
    xis = [0.0, 1.0, float(rng.uniform(0, 1)), float(rng.uniform(0, 1))]
    if nel > 1:
        xis.append(float(int(rng.integers(1, nel)) / nel))  # element boundary
    xi_pool = []
    for x in xis:
        xi_pool.append({"v": x, "as": str(rng.choice(["float", "tuple", "npfloat"]))})
    xi_pool.append({"v": 0, "as": "int"})
    xi_pool.append({"v": 1, "as": "int"})
    return {
        "target": "rod",
        "spec": spec,
        "npool": npool,
        "state_seed": int(rng.integers(2**31)),
        "pool": {
            "t": _pool_t(rng),
            "xi": xi_pool,
            "B": [[0.0, 0.0, 0.0]] + [rng.uniform(-0.1, 0.1, 3).tolist() for _ in range(2)],
        },
        "methods": ["r_OP", "A_IB", "A_IB_q", "r_OP_q", "v_P", "J_P", "v_P_q", "J_P_q", "h", "E_pot", "basis_r", "basis_p"],
        "state_ops": ["set_reference_strains", "step_callback"],
    }


def _gen_mesh(rng):
    degree, nel = int(rng.integers(1, 4)), int(rng.integers(1, 5))
    xis = [0.0, -0.0, 1.0] + [float(x) for x in rng.uniform(0, 1, 3)]
    for k in range(1, nel):
        xis.append(k / nel)
    pool = []
    for x in xis:
        pool.append({"v": x, "as": str(rng.choice(["float", "tuple", "npfloat"]))})
    pool += [{"v": 0, "as": "int"}, {"v": 1, "as": "int"}]
    return {
        "target": "mesh",
        "degree": degree,
        "nel": nel,
        "nquad": int(rng.integers(1, 4)),
        "pool": {"xi": pool},
        "methods": ["eval_basis"],
        "state_ops": [],
    }


def gen(rng, tier, index):
    target = ["rigid", "s2s", "rod", "mesh"][index % 4]
    plan = {"rigid": _gen_rigid, "s2s": _gen_s2s, "rod": _gen_rod, "mesh": _gen_mesh}[target](rng)
    n = int(rng.choice([10, 30, 60, 120]))
    if target == "rod":
        n = min(n, 60)
    ops = []
    sticky = None  # re-visit the same arguments often so that hits happen
    for _ in range(n):
        x = rng.random()
        if plan["state_ops"] and x < 0.15:
            ops.append({"op": str(rng.choice(plan["state_ops"])), "a": [int(rng.integers(8)) for _ in range(6)]})
            continue
        if sticky is None or rng.random() < 0.45:
            sticky = [int(rng.integers(8)) for _ in range(6)]
        a = list(sticky)
        if rng.random() < 0.25:
            a[int(rng.integers(6))] = int(rng.integers(8))
        ops.append(
            {
                "op": "eval",
                "m": str(rng.choice(plan["methods"])),
                "a": a,
                "style": int(rng.integers(4)),
                "scribble": bool(rng.random() < 0.3),
            }
        )
    plan["ops"] = ops
    # a third of the histories hand over the caller's own buffers: the same array objects with new contents
    plan["caller_buffers"] = bool((index // 4) % 3 == 1)
    return plan


# ------------------------------------------------------------------ targets
class Buffers:
    """The caller's own argument arrays: with ``on`` the same array objects are handed over at every evaluation,
    refilled in place with the new values (a Newton loop writing its iterates into one buffer); otherwise fresh
    arrays every time."""

    def __init__(self, on):
        self.on = bool(on)
        self.store = {}

    def get(self, key, value):
        if not self.on:
            return value
        buf = self.store.get(key)
        if buf is None or buf.shape != value.shape:
            buf = self.store[key] = np.array(value, dtype=float)
        else:
            buf[...] = value
        return buf


def _pick(pool, i):
    return pool[i % len(pool)]


def _xi_value(spec):
    v = spec["v"]
    if spec["as"] == "tuple":
        return (float(v),)
    if spec["as"] == "npfloat":
        return np.float64(v)
    if spec["as"] == "int":
        return int(v)
    return float(v)


class RigidTarget:
    def __init__(self, plan):
        from cardillo.discrete import RigidBody

        self.body = RigidBody(2.0, np.diag([1.0, 2.0, 3.0]))
        self.roots = [self.body]
        self.pool = plan["pool"]
        self.buf = Buffers(plan.get("caller_buffers"))

    def args(self, a):
        P = self.pool
        g = self.buf.get
        return (
            float(_pick(P["t"], a[0])),
            g("q", np.array(_pick(P["q"], a[1]), dtype=float)),
            g("u", np.array(_pick(P["u"], a[2]), dtype=float)),
            g("B", np.array(_pick(P["B"], a[3]), dtype=float)),
            g("ud", np.array(_pick(P["u"], a[4]), dtype=float)),
        )

    def eval(self, m, a, style):
        t, q, u, B, ud = self.args(a)
        b = self.body
        arrs = [q, u, B, ud]
        if m in ("A_IB", "A_IB_q"):
            f = getattr(b, m)
            r = f(t, q) if style % 2 == 0 else f(t, q, xi=None)
        elif m in ("r_OP", "J_P", "r_OP_q", "J_P_q"):
            f = getattr(b, m)
            r = [lambda: f(t, q, None, B), lambda: f(t, q, B_r_CP=B), lambda: f(t, q, xi=None, B_r_CP=B), lambda: f(t, q)][style]()
        elif m in ("v_P", "v_P_q", "kappa_P"):
            f = getattr(b, m)
            r = [lambda: f(t, q, u, None, B), lambda: f(t, q, u, B_r_CP=B), lambda: f(t, q, u, xi=None, B_r_CP=B), lambda: f(t, q, u)][style]()
        elif m == "a_P":
            r = b.a_P(t, q, u, ud, None, B) if style % 2 else b.a_P(t, q, u, ud, B_r_CP=B)
        else:
            raise ValueError(m)
        return r, arrs

    def state_op(self, op, a):
        t, q, u, _, _ = self.args(a)
        if op == "step_callback":
            self.body.step_callback(t, q, u)


def _build_s2s(plan, q0, u0):
    from cardillo import System
    from cardillo.discrete import RigidBody, PointMass, Frame
    from cardillo.contacts import Sphere2Sphere

    system = System()
    bodies = []
    iq = iu = 0
    for i, k in enumerate(plan["kinds"]):
        if k == "frame":
            f = plan["frame"]
            c0, amp, w = np.array(f["c"]), np.array(f["amp"]), f["w"]
            b = Frame(
                r_OP=lambda t, c0=c0, amp=amp, w=w: c0 + amp * np.sin(w * t),
                r_OP_t=lambda t, amp=amp, w=w: amp * w * np.cos(w * t),
                r_OP_tt=lambda t, amp=amp, w=w: -amp * w * w * np.sin(w * t),
                name=f"b{i}",
            )
        elif k == "rigid":
            b = RigidBody(1.0 + i, np.diag([0.1, 0.2, 0.3]), q0=np.array(q0[iq : iq + 7]), u0=np.array(u0[iu : iu + 6]), name=f"b{i}")
            iq += 7
            iu += 6
        else:
            b = PointMass(1.0 + i, q0=np.array(q0[iq : iq + 3]), u0=np.array(u0[iu : iu + 3]), name=f"b{i}")
            iq += 3
            iu += 3
        bodies.append(b)
    c = Sphere2Sphere(bodies[0], bodies[1], plan["radii"][0], plan["radii"][1], mu=plan["mu"], e_N=0.5, e_F=0.0, name="c")
    cs = [c]
    extra = []
    sec = (plan.get("frame") or {}).get("second")
    if sec and "centre" in sec:
        c0, amp, w = np.array(sec["centre"]), np.array(sec["amp"]), sec["w"]
        f2 = Frame(
            r_OP=lambda t, c0=c0, amp=amp, w=w: c0 + amp * np.cos(w * t),
            r_OP_t=lambda t, amp=amp, w=w: -amp * w * np.sin(w * t),
            r_OP_tt=lambda t, amp=amp, w=w: -amp * w * w * np.cos(w * t),
            name="obstacle2",
        )
        free = bodies[1] if plan["kinds"][0] == "frame" else bodies[0]
        rfree = plan["radii"][1] if plan["kinds"][0] == "frame" else plan["radii"][0]
        # same partner order as the first contact, so that both contacts see the same local coordinates
        c2 = Sphere2Sphere(f2, free, sec["radius"], rfree, mu=plan["mu"], e_N=0.5, e_F=0.0, name="c2") if plan["kinds"][0] == "frame" else Sphere2Sphere(free, f2, rfree, sec["radius"], mu=plan["mu"], e_N=0.5, e_F=0.0, name="c2")
        cs.append(c2)
        extra = [f2]
    system.add(*bodies, *extra, *cs)
    with contextlib.redirect_stdout(io.StringIO()):
        system.assemble()
    return system, bodies, cs


class S2STarget:
    def __init__(self, plan):
        self.plan = plan
        self.pool = plan["pool"]
        self.system, self.bodies, self.cs = _build_s2s(plan, self.pool["q"][0], self.pool["u"][0])
        self.c = self.cs[0]
        self.roots = list(self.cs) + self.bodies
        self.buf = Buffers(plan.get("caller_buffers"))

    def args(self, a):
        P = self.pool
        i = a[1]
        g = self.buf.get
        return (
            float(_pick(P["t"], a[0])),
            g("q", np.array(_pick(P["q"], i), dtype=float)),
            g("u", np.array(_pick(P["u"], a[2]), dtype=float)),
            g("la", np.array(_pick(P["la"], a[3]), dtype=float)),
            g("laN", np.array(_pick(P["laN"], a[3]), dtype=float)),
            g("ud", np.array(_pick(P["u"], a[4]), dtype=float)),
        )

    def eval(self, m, a, style):
        t, q, u, la, laN, ud = self.args(a)
        c = self.cs[a[3] % len(self.cs)]  # with two contacts on the same free sphere: alternate between them
        arrs = [q, u, la, ud]
        if m in ("n", "n_q1_q2", "t1t2", "t1t2_q1_q2", "W_F", "W_N", "g_N"):
            r = getattr(c, m)(t, q)
        elif m in ("gamma_F", "gamma_F_q", "g_N_dot"):
            r = getattr(c, m)(t, q, u)
        elif m == "Wla_F_q":
            r = c.Wla_F_q(t, q, la)
        elif m == "Wla_N_q":
            r = c.Wla_N_q(t, q, laN)
        elif m == "gamma_F_dot":
            r = c.gamma_F_dot(t, q, u, ud)
        elif m == "sys_gamma_F":
            r = self.system.gamma_F(t, q, u)  # contact DOFs == system DOFs here
        elif m == "sys_W_F":
            r = np.hstack([self.system.W_F(t, q).toarray(), self.system.W_N(t, q).toarray()])
        else:
            raise ValueError(m)
        return r, arrs

    def state_op(self, op, a):
        t, q, u, _, _, _ = self.args(a)
        if op == "step_callback":
            for c in self.cs:
                c.step_callback(t, q, u)
        elif op == "sys_step_callback":
            self.system.step_callback(t, q, u)
        elif op == "reassemble":
            with contextlib.redirect_stdout(io.StringIO()):
                self.system.set_new_initial_state(q, u, t0=t)


class RodTarget:
    def __init__(self, plan):
        self.plan = plan
        self.pool = plan["pool"]
        self.rod = build_rod(plan["spec"])
        rod = self.rod
        rod.assembler_callback()
        srng = np.random.Generator(np.random.PCG64(plan["state_seed"]))
        self.qs, self.us, self.Qs = [], [], []
        for _ in range(plan["npool"]):
            self.qs.append(rod.Q + 0.05 * srng.normal(size=rod.nq))
            self.us.append(srng.normal(size=rod.nu))
            self.Qs.append(rod.Q + 0.02 * srng.normal(size=rod.nq))
        self.Qs.append(rod.Q.copy())
        self.roots = [rod]
        self.buf = Buffers(plan.get("caller_buffers"))

    def args(self, a):
        P = self.pool
        g = self.buf.get
        return (
            float(_pick(P["t"], a[0])),
            g("q", _pick(self.qs, a[1]).copy()),
            g("u", _pick(self.us, a[2]).copy()),
            _xi_value(_pick(P["xi"], a[3])),
            g("B", np.array(_pick(P["B"], a[4]), dtype=float)),
        )

    def eval(self, m, a, style):
        t, q, u, xi, B = self.args(a)
        rod = self.rod
        arrs = [q, u, B]
        if m in ("h",):
            return rod.h(t, q, u), arrs
        if m == "E_pot":
            return np.array(rod.E_pot(t, q)), arrs
        if m == "basis_r":
            return rod.basis_functions_r(xi), arrs
        if m == "basis_p":
            el = int(rod.element_number(xi))
            return (rod.basis_functions_p(xi, el) if style % 2 else rod.basis_functions_p(xi)), arrs
        qe = q[rod.local_qDOF_P(xi)]
        ue = u[rod.local_uDOF_P(xi)]
        arrs += [qe, ue]
        if m in ("A_IB", "A_IB_q"):
            r = getattr(rod, m)(t, qe, xi)
        elif m in ("r_OP", "r_OP_q", "J_P", "J_P_q"):
            f = getattr(rod, m)
            r = f(t, qe, xi, B) if style % 2 else f(t, qe, xi, B_r_CP=B)
        elif m in ("v_P", "v_P_q"):
            f = getattr(rod, m)
            r = f(t, qe, ue, xi, B) if style % 2 else f(t, qe, ue, xi, B_r_CP=B)
        else:
            raise ValueError(m)
        return r, arrs

    def state_op(self, op, a):
        t, q, u, _, _ = self.args(a)
        if op == "set_reference_strains":
            self.rod.set_reference_strains(_pick(self.Qs, a[1]).copy())
        elif op == "step_callback":
            self.rod.step_callback(t, q, u)


class MeshTarget:
    def __init__(self, plan):
        from cardillo.rods.discretization.mesh1D import Mesh1D
        from cardillo.rods.discretization.lagrange import LagrangeKnotVector

        kv = LagrangeKnotVector(plan["degree"], plan["nel"])
        self.mesh = Mesh1D(kv, plan["nquad"], dim_q=3, derivative_order=1, basis="Lagrange", quadrature="Gauss")
        self.nel = plan["nel"]
        self.pool = plan["pool"]
        self.roots = [self.mesh]

    def eval(self, m, a, style):
        xi = _xi_value(_pick(self.pool["xi"], a[3]))
        x = float(xi[0]) if isinstance(xi, tuple) else float(xi)
        if style == 0:
            return self.mesh.eval_basis(xi), []
        if style == 1:
            return self.mesh.eval_basis(xi, None), []
        # explicit element that contains xi (either neighbour on a boundary)
        els = [e for e in range(self.nel) if e / self.nel <= x <= (e + 1) / self.nel]
        el = els[0] if style == 2 else els[-1]
        return self.mesh.eval_basis(xi, el), []

    def state_op(self, op, a):
        pass


TARGETS = {"rigid": RigidTarget, "s2s": S2STarget, "rod": RodTarget, "mesh": MeshTarget}


# ------------------------------------------------------------------ executor
def _flat(r):
    if isinstance(r, (tuple, list)):
        return [np.asarray(x) for x in r]
    return [np.asarray(r)]


def _same(a, b):
    fa, fb = _flat(a), _flat(b)
    if len(fa) != len(fb):
        return False, "structure"
    worst = 0.0
    for x, y in zip(fa, fb):
        if x.shape != y.shape:
            return False, "shape"
        if not np.array_equal(x, y):
            with np.errstate(all="ignore"):
                d = np.abs(np.asarray(x, dtype=float) - np.asarray(y, dtype=float))
            worst = max(worst, float(np.nanmax(d)) if d.size else 0.0)
            if not np.isfinite(worst):
                worst = float("inf")
    return worst == 0.0, worst


def execute(plan, out, log):
    stats = {"hit": 0, "miss": 0}
    nostats = {"hit": 0, "miss": 0}
    cls = TARGETS[plan["target"]]
    real = cls(plan)
    twin = cls(plan)
    n_real = instrument(real.roots, True, stats)
    n_twin = instrument(twin.roots, False, nostats)
    out["probes"]["caches_instrumented"] += n_real
    if n_real == 0 or n_twin != n_real:
        raise RuntimeError(f"cache plumbing found {n_real} caches on the real side and {n_twin} on the twin")

    seen = set()
    state_ops = set()
    had_hit = False
    miss_after_hit = False
    for k, op in enumerate(plan["ops"]):
        if op["op"] != "eval":
            try:
                real.state_op(op["op"], op["a"])
                twin.state_op(op["op"], op["a"])
            except AssertionError as e:
                # both sides run the same code; a rejected re-assembly state is not a cache matter
                log.ev("state_op_rejected", k, op["op"])
                continue
            state_ops.add(op["op"])
            out["probes"]["op_" + op["op"]] += 1
            log.ev("state", k, op["op"])
            continue
        h0, m0 = stats["hit"], stats["miss"]
        r1, arrs1 = real.eval(op["m"], op["a"], op["style"])
        clear_class_level_caches(twin.roots)  # memoisation that does not live on the instance cannot be switched off per twin
        r2, arrs2 = twin.eval(op["m"], op["a"], op["style"])
        hit = stats["hit"] > h0
        if hit:
            had_hit = True
            out["probes"]["cache_hit"] += stats["hit"] - h0
        if stats["miss"] > m0:
            out["probes"]["cache_miss"] += stats["miss"] - m0
            if had_hit:
                miss_after_hit = True
                out["probes"]["cache_miss_after_hit"] += 1
        seen.add((op["m"], hit))
        ok, worst = _same(r1, r2)
        log.ev("eval", k, op["m"], op["style"], hit, *_flat(r1))
        if not ok:
            prior = sorted(state_ops)
            out["violations"].append(
                violation(
                    "stale" if prior else "collision",
                    f"{plan['target']}.{op['m']}",
                    f"op {k}: memoised {op['m']} differs from the unmemoised twin by {worst} "
                    f"(cache hit in this call: {hit}; state-changing ops so far: {prior})",
                )
            )
            break
        if op.get("scribble"):
            # the caller re-uses its own argument buffers
            for x in arrs1 + arrs2:
                if isinstance(x, np.ndarray) and x.size:
                    x += 0.123
                    x *= -1.5
            out["probes"]["scribbled_args"] += 1
    out["steps"] = len(plan["ops"])
    out["nontrivial"] = had_hit and miss_after_hit
    variant = plan["target"]
    if plan.get("caller_buffers"):
        out["probes"]["caller_owned_argument_buffers"] += 1
    if plan["pool"].get("hash_twins"):
        out["probes"]["hash_twin_arguments"] += 1
    if plan["target"] == "s2s":
        variant += ":" + "+".join(plan["kinds"])
        if "frame" in plan["kinds"]:
            out["probes"]["s2s_time_dependent_partner"] += 1
        if len(real.cs) > 1:
            out["probes"]["s2s_two_contacts_same_coordinates"] += 1
    if plan["target"] == "rod":
        s = plan["spec"]
        variant += f":{s['interp']}:{'mixed' if s['mixed'] else 'db'}:{s['constraints']}:p{s['degree']}"
    out["abstract"] = repr((variant, sorted(seen), sorted(state_ops)))


# ------------------------------------------------------------------ shrinking
def shrink(plan):
    for c in ddmin_list(plan["ops"]):
        yield dict(plan, ops=c)
    for i, op in enumerate(plan["ops"]):
        if op.get("scribble"):
            yield dict(plan, ops=plan["ops"][:i] + [dict(op, scribble=False)] + plan["ops"][i + 1 :])
