"""C15 - sparse COO assembly accumulates exactly (DESIGN 5.2).

History machine: one real ``CooMatrix`` against a dense numpy model.  All
written numbers are multiples of 1/8 of modest size, so every sum is exact in
binary floating point and the comparison is exact equality.
"""

import numpy as np

from ..core import violation, ddmin_list

PROPERTY = "C15"
LEVEL = "exploration"
BUDGET = {"quick": 12000, "thorough": 600000}
CHUNK = 250
RUN_TIMEOUT_S = 1500
RULE = (
    "seeded histories of 0..40 block writes into one CooMatrix of shape 0..8 x 0..8, index kinds "
    "{int, numpy int, list, ndarray, slice with +/- step, empty}, value kinds {dense 2-D, dense 1-D, scalar, "
    "csr/csc/coo_array (coo with duplicate coordinates), nested CooMatrix (built inline, or one of up to 3 persistent "
    "sub-containers that are themselves written to, embedded repeatedly and converted), None}, overlapping indices on purpose, "
    "conversions {tocoo,tocsr,tocsc,toarray,asformat(.)} compared exactly with a dense accumulator after writes; "
    "histories may end with one shape-inconsistent write that must raise. distinct = distinct sets of "
    "(row kind, col kind, value kind) triples x overlap flag x conversion formats x ended-with-bad-write; "
    "non-trivial = at least one non-None write and one conversion"
)
RULE += " 35% of the histories contain the block-diagonal loop of a caller that keeps one index buffer per axis (or one for both) and refills it in place between consecutive writes (same array objects, other contents)."
RULE += " After a rejected write the container is converted once more: it still is the accumulation of the accepted blocks."
RULE += " Dense blocks are handed over in element types float64 / int64 / int32 / float32 / bool / nested Python lists and in C, Fortran, strided and transposed memory layouts; sparse blocks in float64 / int64 / float32."
COMPONENTS = {
    "real": ["cardillo.utility.coo_matrix.CooMatrix", "scipy.sparse"],
    "stub": [],
    "model": ["dense numpy accumulator (np.add.at)"],
}
ASSUMPTIONS = [
    "index arrays are non-negative and in range (the container stores unsigned indices; the property does not speak about negative indices)",
    "1-D values are only written to single-row blocks and scalars to 1x1 blocks (other pairings are ambiguous, not 'consistent')",
]

IDX_KINDS = ["int", "npint", "list", "array", "slice", "empty"]
VAL_KINDS = ["dense2d", "dense1d", "scalar", "csr", "csc", "coo", "coodup", "nested", "none"]
FORMATS = ["tocoo", "tocsr", "tocsc", "toarray", "as:coo", "as:csr", "as:csc", "as:array"]


# ------------------------------------------------------------------ generator
def _gen_index(rng, n, force_nonempty=False):
    """-> (spec, resolved list)"""
    kinds = ["int", "npint", "list", "array", "slice"] if n > 0 else ["empty", "slice"]
    if n > 0 and not force_nonempty:
        kinds = kinds + ["empty"]
    kind = kinds[int(rng.integers(len(kinds)))]
    if kind in ("int", "npint"):
        i = int(rng.integers(n))
        return {"k": kind, "i": i}, [i]
    if kind in ("list", "array"):
        m = int(rng.integers(1, min(n, 4) + 1))
        if rng.random() < 0.3:  # duplicates inside one index set
            idx = [int(x) for x in rng.integers(0, n, size=m)]
        else:
            idx = [int(x) for x in rng.permutation(n)[:m]]
        return {"k": kind, "idx": idx}, idx
    if kind == "slice":
        def opt(lo, hi):
            return None if rng.random() < 0.3 else int(rng.integers(lo, hi + 1))

        step = None if rng.random() < 0.4 else int(rng.choice([1, 2, 3, -1, -2]))
        start, stop = opt(-n - 1, n + 1), opt(-n - 1, n + 1)
        res = list(range(*slice(start, stop, step).indices(n)))
        return {"k": "slice", "s": [start, stop, step]}, res
    return {"k": "empty", "as": "list" if rng.random() < 0.5 else "array"}, []


def _vals(rng, r, c):
    return [[int(x) / 8.0 for x in rng.integers(-40, 41, size=c)] for _ in range(r)]


def _gen_value(rng, r, c, depth=0):
    kinds = ["dense2d", "csr", "csc", "coo", "coodup", "none"]
    if depth == 0:
        kinds.append("nested")
    if r == 1:
        kinds.append("dense1d")
    if r == 1 and c == 1:
        kinds.append("scalar")
    kind = kinds[int(rng.integers(len(kinds)))]
    spec = {"k": kind, "sh": [r, c]}
    if kind == "none":
        return spec
    if kind in ("dense2d", "dense1d", "scalar"):
        spec["v"] = _vals(rng, r, c)
        # element types and memory layouts a caller may legally hand over (the container stores doubles)
        if rng.random() < 0.35:
            # (a nested Python list cannot express an empty (0, c) block)
            spec["dt"] = str(rng.choice(["i8", "i4", "f4", "b", "py"] if r * c > 0 else ["i8", "i4", "f4", "b"]))
            if spec["dt"] in ("i8", "i4", "py") and rng.random() < 0.8:
                spec["v"] = [[float(int(x * 8) % 7 - 3) for x in row] for row in spec["v"]]
            elif spec["dt"] == "b":
                spec["v"] = [[float(x > 0) for x in row] for row in spec["v"]]
            elif spec["dt"] in ("i8", "i4"):
                spec["dt"] = "f4"
        if kind == "dense2d" and rng.random() < 0.3:
            spec["lay"] = str(rng.choice(["F", "strided", "T", "Fstrided", "Tsliced"]))
        return spec
    if kind in ("csr", "csc", "coo"):
        spec["v"] = _vals(rng, r, c)
        spec["mask"] = [[int(rng.random() < 0.6) for _ in range(c)] for _ in range(r)]
        if rng.random() < 0.2:
            spec["dt"] = str(rng.choice(["i8", "f4"]))
            if spec["dt"] == "i8":
                spec["v"] = [[float(int(x * 8) % 7 - 3) for x in row] for row in spec["v"]]
        return spec
    if kind == "coodup":
        nnz = int(rng.integers(0, 7)) if r * c > 0 else 0
        spec["ijv"] = [
            [int(rng.integers(r)), int(rng.integers(c)), int(rng.integers(-40, 41)) / 8.0]
            for _ in range(nnz)
        ]
        return spec
    # nested CooMatrix of shape (r, c) built by its own small history
    sub = []
    for _ in range(int(rng.integers(0, 4))):
        sub.append(_gen_write(rng, r, c, depth=1))
    spec["ops"] = sub
    return spec


def _gen_write(rng, m, n, depth=0):
    rs, rres = _gen_index(rng, m)
    cs, cres = _gen_index(rng, n)
    return {"op": "write", "rows": rs, "cols": cs, "val": _gen_value(rng, len(rres), len(cres), depth)}


def _gen_bad(rng, m, n):
    """A write whose value shape disagrees with its index sets."""
    for _ in range(50):
        rs, rres = _gen_index(rng, m)
        cs, cres = _gen_index(rng, n)
        r, c = len(rres), len(cres)
        choices = []
        for dr, dc in ((1, 0), (0, 1), (-1, 0), (0, -1), (1, 1)):
            rr, cc = r + dr, c + dc
            if rr >= 0 and cc >= 0 and (rr, cc) != (r, c):
                choices.append((rr, cc))
        if r != c:
            choices.append((c, r))  # transposed block
        rr, cc = choices[int(rng.integers(len(choices)))]
        kinds = ["dense2d", "csr", "csc", "coo", "nested"]
        if rr == 1:
            kinds.append("dense1d")
        if rr == 1 and cc == 1:
            kinds.append("scalar")
        kind = kinds[int(rng.integers(len(kinds)))]
        # a dense value that numpy would flatten to the right shape is not "bad"
        if kind in ("dense1d", "scalar", "dense2d"):
            v = np.atleast_2d(np.zeros((rr, cc)) if kind == "dense2d" else np.zeros(cc))
            if v.shape == (r, c):
                continue
        spec = {"k": kind, "sh": [rr, cc], "v": _vals(rng, rr, cc)}
        if kind in ("csr", "csc", "coo"):
            spec["mask"] = [[1] * cc for _ in range(rr)]
        if kind == "nested":
            spec = {"k": "nested", "sh": [rr, cc], "ops": []}
        return {"op": "bad_write", "rows": rs, "cols": cs, "val": spec, "vshape": [rr, cc]}
    return None


def _gen_pool_write(rng, shapes, c, src):
    """Write the persistent container ``src`` as a block into container ``c``."""
    (m, n), (r, k) = shapes[c], shapes[src]

    def idx(total, need):
        if need == total and rng.random() < 0.6:
            return {"k": "slice", "s": [None, None, None]}
        if total == 0:
            return None
        kind = "list" if rng.random() < 0.5 else "array"
        if need == total and rng.random() < 0.5:
            return {"k": kind, "idx": list(range(total))}
        return {"k": kind, "idx": [int(x) for x in rng.integers(0, total, size=need)]}

    rs, cs = idx(m, r), idx(n, k)
    if rs is None or cs is None:
        if (r and rs is None) or (k and cs is None):
            return None
        rs = rs or {"k": "empty", "as": "list"}
        cs = cs or {"k": "empty", "as": "list"}
    return {"op": "write", "c": c, "rows": rs, "cols": cs, "val": {"k": "pool", "src": src, "sh": [r, k]}}


def gen(rng, tier, index):
    m, n = int(rng.integers(0, 9)), int(rng.integers(0, 9))
    nw = int(rng.integers(0, 41)) if rng.random() < 0.7 else int(rng.integers(0, 6))
    p_conv = float(rng.choice([0.15, 0.5, 1.0]))
    # persistent sub-containers (containers in their own right, embedded and re-used)
    shapes = [[m, n]]
    if rng.random() < 0.5:
        for _ in range(int(rng.integers(1, 4))):
            shapes.append([m, n] if rng.random() < 0.5 else [int(rng.integers(0, 5)), int(rng.integers(0, 5))])
    ops = []
    for _ in range(nw):
        c = 0
        if len(shapes) > 1 and rng.random() < 0.35:
            c = int(rng.integers(len(shapes)))
        w = None
        if len(shapes) > 1 and c < len(shapes) - 1 and rng.random() < 0.45:
            w = _gen_pool_write(rng, shapes, c, int(rng.integers(c + 1, len(shapes))))
        if w is None:
            w = _gen_write(rng, shapes[c][0], shapes[c][1])
            w["c"] = c
        ops.append(w)
        if rng.random() < p_conv:
            ops.append({"op": "convert", "c": int(rng.integers(len(shapes))), "fmt": FORMATS[int(rng.integers(len(FORMATS)))]})
    if m > 0 and n > 0 and rng.random() < 0.35:
        # the block-diagonal loop of a caller that keeps ONE index buffer per axis and shifts / refills it in place
        # between the writes: every write sees the same array objects with other contents
        r, c = int(rng.integers(1, min(m, 3) + 1)), int(rng.integers(1, min(n, 3) + 1))
        same = rng.random() < 0.3 and r == c and m == n  # one buffer used for rows and columns
        loop = []
        for _ in range(int(rng.integers(2, 5))):
            ri = [int(x) for x in rng.integers(0, m, size=r)]
            ci = list(ri) if same else [int(x) for x in rng.integers(0, n, size=c)]
            val = {"k": "dense2d", "sh": [r, c], "v": _vals(rng, r, c)}
            if r == 1 and rng.random() < 0.3:
                val["k"] = "dense1d"
            loop.append({"op": "write", "c": 0, "rows": {"k": "array", "idx": ri, "buf": "r"}, "cols": {"k": "array", "idx": ci, "buf": "r" if same else "c"}, "val": val})
            if rng.random() < 0.3:
                loop.append({"op": "convert", "c": 0, "fmt": FORMATS[int(rng.integers(len(FORMATS)))]})
        at = int(rng.integers(0, len(ops) + 1))
        ops[at:at] = loop
    for c in range(len(shapes)):
        ops.append({"op": "convert", "c": c, "fmt": FORMATS[int(rng.integers(len(FORMATS)))]})
    if rng.random() < 0.35:
        b = _gen_bad(rng, m, n)
        if b is not None:
            ops.append(b)
    plan = {"shape": [m, n], "subs": shapes[1:], "ops": ops}
    if rng.random() < 0.15:
        # the unit system is the user's: the whole history in very small or very large numbers
        plan["scale_exp"] = int(rng.choice([-70, -60, -53, 45]))
    return plan


# ------------------------------------------------------------------ executor
def _build_index(spec, n):
    k = spec["k"]
    if k == "int":
        return spec["i"], [spec["i"]]
    if k == "npint":
        return np.int64(spec["i"]), [spec["i"]]
    if k == "list":
        return list(spec["idx"]), list(spec["idx"])
    if k == "array":
        if spec.get("buf"):
            # the caller's own index buffer, refilled in place (same array object as in its previous write)
            buf = BUFFERS.get(spec["buf"])
            if buf is None or len(buf) != len(spec["idx"]):
                buf = BUFFERS[spec["buf"]] = np.zeros(len(spec["idx"]), dtype=np.int64)
            else:
                BUFFERS["reused"] = BUFFERS.get("reused", 0) + 1
            buf[:] = spec["idx"]
            return buf, list(spec["idx"])
        return np.array(spec["idx"], dtype=np.int64), list(spec["idx"])
    if k == "slice":
        s = slice(*spec["s"])
        return s, list(range(*s.indices(n)))
    if spec.get("as") == "list":
        return [], []
    return np.array([], dtype=np.int64), []


BUFFERS = {}  # index buffers of the caller that live across writes (per history)
SCALE = {"x": 1.0}  # unit scale of the current history (a power of two: every sum stays exact)


def _build_value(spec, r, c):
    """-> (python value handed to CooMatrix, dense (r,c) model block or None)"""
    from scipy.sparse import csr_array, csc_array, coo_array
    from cardillo.utility.coo_matrix import CooMatrix

    k = spec["k"]
    if k == "none":
        return None, None
    r, c = spec["sh"]
    NP = {"i8": np.int64, "i4": np.int32, "f4": np.float32, "b": np.bool_}
    dt = spec.get("dt")
    if SCALE["x"] != 1.0 and dt in ("i8", "i4", "b"):
        dt = None  # integer element types cannot carry the history's unit scale

    def typed(a):
        """the same numbers in the element type / container the spec asks for"""
        if dt is None:
            return a
        if dt == "py":
            return [[int(x) if float(x).is_integer() else float(x) for x in row] for row in a.tolist()] if a.ndim == 2 else [int(x) if float(x).is_integer() else float(x) for x in a.tolist()]
        return a.astype(NP[dt])

    if k == "dense2d":
        a = np.array(spec["v"], dtype=float).reshape(r, c) * SCALE["x"]
        h = typed(a)
        lay = spec.get("lay")
        if isinstance(h, np.ndarray) and lay == "F":
            h = np.asfortranarray(h)
        elif isinstance(h, np.ndarray) and lay == "strided":
            big = np.zeros((2 * r, 2 * c), dtype=h.dtype)
            big[::2, ::2] = h
            h = big[::2, ::2]
        elif isinstance(h, np.ndarray) and lay == "T":
            h = np.ascontiguousarray(h.T).T
        elif isinstance(h, np.ndarray) and lay == "Fstrided":
            # a strided view of a column-major array: column-major in memory, but not contiguous
            big = np.asfortranarray(np.zeros((2 * r, 2 * c), dtype=h.dtype))
            big[::2, ::2] = h
            h = big[::2, ::2]
        elif isinstance(h, np.ndarray) and lay == "Tsliced":
            # a slice of a transpose (e.g. part of a transposed Jacobian)
            big = np.zeros((c + 2, r + 1), dtype=h.dtype)
            big[:c, :r] = h.T
            h = big.T[:r, :c]
        return h, a
    if k == "dense1d":
        a = np.array(spec["v"], dtype=float).reshape(1, -1) * SCALE["x"]
        return typed(a[0].copy()), a
    if k == "scalar":
        x = float(spec["v"][0][0]) * SCALE["x"]
        hx = x
        if dt == "py":
            hx = int(x) if x.is_integer() else x
        elif dt is not None:
            hx = NP[dt](x)
        return hx, np.array([[x]])
    if k in ("csr", "csc", "coo"):
        rr, cc = r, c
        a = np.array(spec["v"], dtype=float).reshape(rr, cc) * SCALE["x"]
        mk = np.array(spec["mask"], dtype=float).reshape(rr, cc)
        d = a * mk
        cls = {"csr": csr_array, "csc": csc_array, "coo": coo_array}[k]
        return cls(d if dt is None else d.astype(NP[dt])), d
    if k == "coodup":
        d = np.zeros((r, c))
        ii = [e[0] for e in spec["ijv"]]
        jj = [e[1] for e in spec["ijv"]]
        vv = [e[2] for e in spec["ijv"]]
        for i, j, v in spec["ijv"]:
            d[i, j] += v * SCALE["x"]
        return coo_array((np.array(vv, dtype=float) * SCALE["x"], (np.array(ii, dtype=int), np.array(jj, dtype=int))), shape=(r, c)), d
    if k == "nested":
        rr, cc = r, c
        sub = CooMatrix((rr, cc))
        d = np.zeros((rr, cc))
        for op in spec["ops"]:
            _apply_write(sub, d, op, (rr, cc))
        return sub, d
    raise ValueError(k)


def _apply_write(coo, dense, op, shape):
    rk, rres = _build_index(op["rows"], shape[0])
    ck, cres = _build_index(op["cols"], shape[1])
    val, block = _build_value(op["val"], len(rres), len(cres))
    coo[rk, ck] = val
    if block is not None and len(rres) and len(cres):
        np.add.at(
            dense,
            (np.array(rres, dtype=int)[:, None], np.array(cres, dtype=int)[None, :]),
            block,
        )


def _convert(coo, fmt):
    if fmt.startswith("as:"):
        m = coo.asformat(fmt[3:])
    else:
        m = getattr(coo, fmt)()
    if isinstance(m, np.ndarray):
        return m
    return m.toarray()


def execute(plan, out, log):
    from cardillo.utility.coo_matrix import CooMatrix

    SCALE["x"] = float(2.0 ** plan.get("scale_exp", 0))
    BUFFERS.clear()
    if plan.get("scale_exp", 0):
        out["probes"]["rescaled_history"] += 1
    shapes = [tuple(plan["shape"])] + [tuple(x) for x in plan.get("subs", [])]
    coos = [CooMatrix(sh) for sh in shapes]
    denses = [np.zeros(sh) for sh in shapes]
    triples = set()
    fmts = set()
    overlap = False
    touched = np.zeros(shapes[0], dtype=int)
    n_writes = 0
    bad = False
    for k, op in enumerate(plan["ops"]):
        ci = op.get("c", 0)
        if ci >= len(coos):
            continue  # container dropped by the shrinker
        coo, dense, shape = coos[ci], denses[ci], shapes[ci]
        if op["op"] == "write":
            vk = op["val"]["k"]
            if vk == "pool" and op["val"]["src"] >= len(coos):
                continue
            try:
                rk, rres = _build_index(op["rows"], shape[0])
                ck, cres = _build_index(op["cols"], shape[1])
                if vk == "pool":
                    src = op["val"]["src"]
                    coo[rk, ck] = coos[src]
                    if len(rres) and len(cres):
                        np.add.at(dense, (np.array(rres, dtype=int)[:, None], np.array(cres, dtype=int)[None, :]), denses[src])
                    out["probes"]["pool_container_embedded"] += 1
                    if len(coos[src].data) and shapes[src] == shape:
                        out["probes"]["pool_same_shape_embedded"] += 1
                else:
                    _apply_write(coo, dense, op, shape)
            except Exception as e:
                out["violations"].append(
                    violation(
                        "good_write_rejected",
                        f"{op['rows']['k']}/{op['cols']['k']}/{op['val']['k']}",
                        f"op {k}: consistent write raised {type(e).__name__}: {e}",
                    )
                )
                log.ev("write_raised", k, type(e).__name__)
                break
            triples.add((op["rows"]["k"], op["cols"]["k"], vk + "/" + op["val"].get("dt", "") + op["val"].get("lay", "")))
            if vk != "none":
                n_writes += 1
                if ci == 0 and len(rres) and len(cres):
                    sub = touched[np.ix_(sorted(set(rres)), sorted(set(cres)))]
                    if sub.any() or len(set(rres)) < len(rres) or len(set(cres)) < len(cres):
                        overlap = True
                        out["probes"]["overlapping_write"] += 1
                    touched[np.ix_(sorted(set(rres)), sorted(set(cres)))] += 1
            out["probes"]["write_" + vk] += 1
            if op["val"].get("dt"):
                out["probes"]["write_dtype_" + op["val"]["dt"]] += 1
            if op["val"].get("lay"):
                out["probes"]["write_layout_" + op["val"]["lay"]] += 1
            if ci:
                out["probes"]["write_into_sub_container"] += 1
            log.ev("write", k, ci, vk, len(rres), len(cres))
        elif op["op"] == "convert":
            try:
                got = _convert(coo, op["fmt"])
            except Exception as e:
                out["violations"].append(
                    violation("accumulate_mismatch", op["fmt"], f"op {k}: conversion raised {type(e).__name__}: {e}")
                )
                break
            fmts.add(op["fmt"])
            out["probes"]["convert_" + op["fmt"]] += 1
            log.ev("convert", k, ci, op["fmt"], np.asarray(got, dtype=float))
            if got.shape != dense.shape or not np.array_equal(got, dense):
                diff = "shape" if got.shape != dense.shape else float(np.max(np.abs(got - dense)))
                which = "the container" if ci == 0 else f"sub-container {ci} (itself embedded / re-used elsewhere)"
                out["violations"].append(
                    violation(
                        "accumulate_mismatch",
                        op["fmt"] + ("" if ci == 0 else "/sub"),
                        f"op {k}: {op['fmt']} of {which} differs from the dense accumulation of the blocks written to it (max diff {diff}) after {n_writes} writes",
                    )
                )
                break
        elif op["op"] == "bad_write":
            bad = True
            out["faults"]["malformed_write"] += 1
            try:
                rk, rres = _build_index(op["rows"], shape[0])
                ck, cres = _build_index(op["cols"], shape[1])
                rr, cc = op["vshape"]
                val, _ = _build_value(op["val"], rr, cc)
                coo[rk, ck] = val
            except Exception as e:
                log.ev("bad_write_rejected", k, type(e).__name__)
                out["probes"]["bad_write_rejected"] += 1
            else:
                out["violations"].append(
                    violation(
                        "bad_write_accepted",
                        op["val"]["k"],
                        f"op {k}: block of shape {op['vshape']} accepted for index sets of sizes ({len(rres)}, {len(cres)})",
                    )
                )
            if out["violations"]:
                break
            # a rejected write is not a write: the container still converts to the accumulation of the accepted blocks
            # (the caller catches the error and carries on)
            for fmt in ("toarray", FORMATS[k % len(FORMATS)]):
                try:
                    got = _convert(coo, fmt)
                except Exception as e:
                    out["violations"].append(violation("rejected_write_left_traces", fmt, f"op {k}: after a rejected write ({op['val']['k']} block of shape {op['vshape']}) the conversion raised {type(e).__name__}: {e}"))
                    break
                if got.shape != dense.shape or not np.array_equal(got, dense):
                    out["violations"].append(
                        violation(
                            "rejected_write_left_traces",
                            fmt,
                            f"op {k}: after a rejected write ({op['val']['k']} block of shape {op['vshape']} for index sets of sizes ({len(rres)}, {len(cres)})) {fmt} differs from the accumulation of the accepted blocks (max diff {float(np.max(np.abs(got - dense))) if got.shape == dense.shape else 'shape'})",
                        )
                    )
                    break
            out["probes"]["converted_after_rejected_write"] += 1
            break
    if BUFFERS.get("reused"):
        out["probes"]["index_buffer_refilled_in_place"] += BUFFERS["reused"]
    out["steps"] = len(plan["ops"])
    out["nontrivial"] = n_writes > 0 and len(fmts) > 0
    out["abstract"] = repr((sorted(triples), overlap, sorted(fmts), bad, len(shapes)))


# ------------------------------------------------------------------ shrinking
def shrink(plan):
    ops = plan["ops"]
    for c in ddmin_list(ops):
        yield dict(plan, ops=c)
    # simplify nested values
    for i, op in enumerate(ops):
        if op["op"] == "write" and op["val"]["k"] == "nested" and op["val"]["ops"]:
            for c in ddmin_list(op["val"]["ops"]):
                new = dict(op, val=dict(op["val"], ops=c))
                yield dict(plan, ops=ops[:i] + [new] + ops[i + 1 :])
