"""C20 - solver results honour the Solution contract (DESIGN 5.7)."""

import contextlib
import importlib
import os
import shutil
import tempfile
from decimal import Decimal

import numpy as np

from ..core import violation, Discard
from ..gen_scenes import gen_chain_scene, gen_contact_scene, gen_rod_scene
from ..scenes import build
from ..seams import Sim
from ..session import (
    DYNAMIC,
    NONSMOOTH,
    gen_solver,
    project_velocities,
    run_solver,
    check_solution_shape,
    check_grid,
    require_regular,
    FIELDS_DIM,
)
from .. import rot

PROPERTY = "C20"
LEVEL = "exploration"
BUDGET = {"quick": 640, "thorough": 15000}
CHUNK = 4
RUN_TIMEOUT_S = 1500
MAX_DISCARD_FRACTION = 0.5
RULE = (
    "seeded runs of all eight solvers (RATTLE, Moreau, BackwardEuler, DualStormerVerlet, ScipyIVP, ScipyDAE, static Newton, "
    "Riks) on small smooth / contact / static scenes; (t0, t1, dt) swept over decimal step sizes with final times that are "
    "exact decimal multiples of dt (inexact in binary), non-multiples, tiny runs of 1..3 steps and non-zero initial times; "
    "injected truncation faults (forced Newton failure in BackwardEuler / static Newton, SciPy back-end stop) so that "
    "truncated solutions are checked too; every Solution is checked for grid start / step / end point, field shapes, "
    "iteration and (through a real file) save/load. distinct = (solver, dt, number of steps, t1 kind, fault kind, "
    "scene kind); non-trivial = solution returned with >= 2 instants"
)
RULE += " Rattle / BackwardEuler runs may contain a Cosserat rod (field widths nla_c / nla_g of the rod; save / load of a system whose rod class is created by the factory at run time)."
COMPONENTS = {
    "real": ["all eight solvers", "Solution / SolutionIterator / save_solution / load_solution (dill, real files in a private temp dir)"],
    "stub": ["tqdm -> SimProgress", "solve_ivp / solve_dae wrapped only when a back-end stop fault is scheduled (real integrator runs up to the fault time)"],
    "model": ["grid model: first grid point at or after t1; one row per instant; width = system dimension"],
}
ASSUMPTIONS = ["Riks returns a non-monotone arc-length parameter: only shape / iteration / save-load clauses apply to it"]
REQUIRED_PROBES = {"quick": ["decimal_multiple_t1", "saved_and_loaded", "truncated_by_fault", "ran_Newton", "ran_Riks"]}

DTS = ["0.1", "0.05", "0.02", "0.01", "0.005", "0.002", "0.001", "0.25", "0.2", "0.125"]
ALL = DYNAMIC + ["Newton", "Riks"]


class Truss2D:
    """Snap-through truss (as in the repository's test_riks), duck-typed."""

    def __init__(self, stiffness, phi0, width):
        self.stiffness, self.phi0, self.width = stiffness, phi0, width
        self.nu = self.nq = 1
        self.u0 = np.zeros(1)
        self.q0 = np.array([phi0])
        self.constant_mass_matrix = True
        self.name = "truss"

    def M(self, t, q):
        return np.eye(1)

    def h(self, t, q, u):
        phi = q[0]
        return np.array([t + 2 * self.stiffness * (self.width / np.cos(phi) - self.width / np.cos(self.phi0)) * np.sin(phi)])

    def h_q(self, t, q, u):
        phi = q[0]
        w, k, c0 = self.width, self.stiffness, np.cos(self.phi0)
        d = 2 * k * ((w * np.sin(phi) / np.cos(phi) ** 2) * np.sin(phi) + (w / np.cos(phi) - w / c0) * np.cos(phi))
        return np.array([[d]])


def static_scene(rng):
    """One rigid body hanging on three springs, load ramped with t."""
    b = {"kind": "rigid", "m": float(rng.uniform(0.5, 2)), "theta": [0.2, 0.3, 0.4], "r": [0.0, 0.0, 0.0], "p": [1.0, 0, 0, 0], "v": [0, 0, 0], "w": [0, 0, 0]}
    sc = {"t0": 0.0, "bodies": [b], "frames": [], "joints": [], "tpis": [], "laws": [], "actuators": [], "forces": [], "contacts": []}
    anchors = [[1.0, 0.2, 1.0], [-0.8, 0.9, 1.1], [-0.3, -1.0, 0.9], [0.6, -0.7, -1.0], [0.1, 1.2, -0.9], [-1.1, -0.2, -0.8], [0.9, 0.8, 0.1]]
    for k, a in enumerate(anchors):
        sc["frames"].append({"r": a, "p": [1.0, 0, 0, 0], "motion": None})
        sc["tpis"].append({"a": ["frame", k], "b": ["body", 0], "ra": [0, 0, 0], "rb": (0.2 * rng.normal(size=3)).tolist()})
        sc["laws"].append({"type": "spring", "on": ["tpi", k], "k": float(rng.uniform(20, 60)), "l_ref": None, "compliance": bool(rng.random() < 0.3)})
    sc["forces"].append({"type": "force", "body": 0, "vec": (rng.normal(size=3) * 3).tolist(), "rB": [0.1, 0.0, 0.05], "time": "ramp"})
    return sc


def gen(rng, tier, index):
    name = ALL[index % len(ALL)]
    plan = {"solver_name": name, "saveload": bool(rng.random() < 0.5), "fault": None}
    if name == "Newton":
        plan["scene_kind"] = "static"
        plan["scene"] = static_scene(rng)
        plan["n_load_steps"] = int(rng.integers(1, 8))
        plan["tol"] = float(rng.choice([1e-6, 1e-8, 1e-10]))
        if rng.random() < 0.3:
            plan["fault"] = {"kind": "F1", "step": int(rng.integers(1, plan["n_load_steps"] + 2))}
        return plan
    if name == "Riks":
        plan["scene_kind"] = "truss"
        plan["truss"] = {"k": float(rng.uniform(0.5, 2)), "phi0": float(rng.uniform(0.5, 1.0)), "w": 1.0}
        plan["la_arc0"] = float(rng.choice([1e-6, 1e-4, 1e-3]))
        plan["span"] = [-1.0, float(rng.uniform(0.2, 1.0))]
        plan["iter_goal"] = int(rng.integers(2, 5))
        return plan
    contact = name in NONSMOOTH and rng.random() < 0.4
    rodscene = name in ("Rattle", "BackwardEuler") and rng.random() < 0.3
    if rodscene:
        # a Cosserat rod in the system: fields of width nla_c / nla_g of the rod, and a system object whose rod
        # class is created at run time by the rod factory (what save / load has to cope with)
        contact = False
        plan["scene_kind"] = "rod"
        plan["scene"] = gen_rod_scene(rng)
        plan["saveload"] = bool(rng.random() < 0.8)
    elif contact:
        plan["scene_kind"] = "contact"
        plan["scene"] = gen_contact_scene(rng, nspheres=int(rng.integers(1, 3)))
    else:
        plan["scene_kind"] = "chain"
        plan["scene"] = gen_chain_scene(rng, nbodies=int(rng.integers(1, 3)), allow_loop=False)
    dts = DTS if name not in ("ScipyIVP", "ScipyDAE") else ["0.1", "0.05", "0.02", "0.01", "0.25", "0.2", "0.125"]
    dt = dts[int(rng.integers(len(dts)))]
    n = int(rng.choice([1, 2, 3, int(rng.integers(4, 40))]))
    t0 = str(rng.choice(["0", "0", "0", "0.1", "1", "0.3"]))
    kind = str(rng.choice(["multiple", "multiple", "multiple", "half", "frac", "frac_small", "frac_tiny"]))
    if kind == "multiple":
        t1 = float(Decimal(t0) + Decimal(dt) * n)
    elif kind == "half":
        t1 = float(Decimal(t0) + Decimal(dt) * n - Decimal(dt) / 2)
    elif kind == "frac_small":
        # the final time lies just after a grid point: (t1 - t0) / dt = n - 1 + 0.3
        t1 = float(Decimal(t0) + Decimal(dt) * n - Decimal(dt) * Decimal("0.7"))
    elif kind == "frac_tiny":
        t1 = float(Decimal(t0) + Decimal(dt) * n - Decimal(dt) * Decimal("0.97"))
    else:
        t1 = float(Decimal(t0) + Decimal(dt) * n - Decimal(dt) * Decimal("0.3"))
    plan["t0"], plan["t1"], plan["dt"], plan["t1_kind"], plan["n"] = float(t0), t1, float(dt), kind, n
    plan["scene"]["t0"] = float(t0)
    plan["solver"] = gen_solver(rng, name, n, float(dt), tight=False, buggify=bool(rng.random() < 0.5), contacts=contact)
    if name == "BackwardEuler" and n >= 2 and rng.random() < 0.4:
        plan["fault"] = {"kind": "F1", "step": int(rng.integers(1, n + 1)), "occ": 1}
    if contact and name in ("Moreau", "Rattle", "BackwardEuler") and n >= 3 and plan.get("fault") is None and rng.random() < 0.5:
        # F2: the contact fixed point of a few steps fails while the run is told to go on (continue_with_unconverged):
        # the run is NOT truncated, so the whole contract applies to what comes back
        site = {"Moreau": "moreau.fp", "Rattle": str(rng.choice(["rattle.fp1", "rattle.fp2"])), "BackwardEuler": "be.fp"}[name]
        plan["fault"] = {"kind": "F2c", "site": site, "steps": sorted({int(x) for x in rng.integers(1, n + 1, size=3)})}
        plan["solver"]["options"]["continue_with_unconverged"] = True
        plan["solver"]["options"]["fixed_point_max_iter"] = 30
    if name in ("ScipyIVP", "ScipyDAE") and n >= 3 and rng.random() < 0.35:
        plan["fault"] = {"kind": "F4", "frac": float(rng.uniform(0.2, 0.8))}
    return plan


@contextlib.contextmanager
def backend_stop(name, frac, out):
    """F4: the SciPy back end stops at a time inside the interval with
    status -1, after really integrating up to there."""
    modname, attr = ("cardillo.solver.scipy_ivp", "solve_ivp") if name == "ScipyIVP" else ("cardillo.solver.scipy_dae", "solve_dae")
    mod = importlib.import_module(modname)
    real = getattr(mod, attr)

    def wrapped(fun, t_span, *args, t_eval=None, **kw):
        tau = float(t_span[0] + frac * (t_span[1] - t_span[0]))
        # same signature as the real back end: t_eval is optional (dense output, own grid)
        te = None if t_eval is None else np.asarray(t_eval)[np.asarray(t_eval) <= tau]
        sol = real(fun, (float(t_span[0]), tau), *args, t_eval=te, **kw)
        sol.status = -1
        sol.success = False
        sol.message = "Required step size is less than spacing between numbers."
        out["faults"]["F4_backend_stop"] += 1
        return sol

    setattr(mod, attr, wrapped)
    try:
        yield
    finally:
        setattr(mod, attr, real)


def save_load(sol, name, out):
    from cardillo.solver import load_solution

    d = tempfile.mkdtemp(prefix="cardsim-c20-")
    try:
        path = os.path.join(d, "solution.pkl")
        try:
            sol.save(path)
            back = load_solution(path)
        except Exception as e:
            out["violations"].append(violation("save_load", name, f"save/load raised {type(e).__name__}: {e}"))
            return
        out["probes"]["saved_and_loaded"] += 1
        keys = [k for k in sol.__dict__ if k not in ("system", "solver_summary")]

        def compare(orig, loaded, what):
            for k in keys:
                a, b = getattr(orig, k), getattr(loaded, k, "missing")
                if a is None:
                    same = b is None
                elif isinstance(b, str):
                    same = False
                else:
                    same = np.asarray(a).shape == np.asarray(b).shape and np.array_equal(np.asarray(a), np.asarray(b), equal_nan=True)
                if not same:
                    out["violations"].append(violation("save_load", f"{name}.{k}" + ("" if what == "first" else "/overwritten_file"), f"field {k} is not preserved by save -> load ({what})"))
                    return False
            return True

        if not compare(sol, back, "first"):
            return
        # the file is overwritten by a different solution (first half of the instants) and loaded again
        from cardillo.solver import Solution, save_solution

        h = max(len(sol.t) // 2, 1)
        fields = {k: (None if getattr(sol, k) is None else np.asarray(getattr(sol, k))[:h].copy()) for k in keys}
        sol2 = Solution(system=sol.system, **fields)
        try:
            save_solution(sol2, path)
            back2 = load_solution(path)
        except Exception as e:
            out["violations"].append(violation("save_load", name + "/overwritten_file", f"second save/load to the same file raised {type(e).__name__}: {e}"))
            return
        out["probes"]["saved_over_existing_file"] += 1
        compare(sol2, back2, "same file overwritten by a different solution")
    finally:
        shutil.rmtree(d, ignore_errors=True)


def execute(plan, out, log):
    from cardillo import System
    from cardillo.solver import SolverOptions, Newton, Riks

    name = plan["solver_name"]
    faults = []
    f = plan.get("fault")
    if f and f["kind"] == "F1":
        faults.append(("fsolve", f["step"], f.get("occ", 1)))
    if f and f["kind"] == "F2c":
        faults.extend((f["site"], k, 1) for k in f["steps"])
    sim = Sim(log, faults=faults)
    truncated = False
    with sim.installed():
        if name == "Newton":
            B = build(plan["scene"], options=SolverOptions(compute_consistent_initial_conditions=False))
            system = B.system
            opts = SolverOptions(newton_atol=plan["tol"], newton_rtol=plan["tol"], newton_max_iter=40)
            try:
                sol = Newton(system, n_load_steps=plan["n_load_steps"], verbose=True, options=opts).solve()
            except Exception as e:
                raise Discard(f"Newton_raised:{type(e).__name__}")
            truncated = bool(sim.failed_instances())
            t0, t1, dt = 0.0, 1.0, 1.0 / plan["n_load_steps"]
        elif name == "Riks":
            system = System()
            tr = plan["truss"]
            system.add(Truss2D(tr["k"], tr["phi0"], tr["w"]))
            system.assemble()
            try:
                sol = Riks(
                    system,
                    la_arc_span=np.array(plan["span"]),
                    la_arc0=plan["la_arc0"],
                    iter_goal=plan["iter_goal"],
                    max_load_steps=300,
                    options=SolverOptions(newton_atol=1e-8, newton_rtol=1e-8),
                ).solve()
            except Exception as e:
                raise Discard(f"Riks_raised:{type(e).__name__}")
        else:
            scene = project_velocities(plan["scene"])
            try:
                B = build(scene)
            except (AssertionError, RuntimeError, ValueError, np.linalg.LinAlgError) as e:
                raise Discard(f"assemble:{type(e).__name__}")
            require_regular(B)
            system = B.system
            t0, t1, dt = plan["t0"], plan["t1"], plan["dt"]
            cm = backend_stop(name, f["frac"], out) if (f and f["kind"] == "F4") else contextlib.nullcontext()
            with cm:
                R = run_solver(B, plan["solver"], sim, t1=t1, record=False)
            if R.exc is not None:
                raise Discard(f"solver_raised:{name}:{type(R.exc).__name__}")
            sol = R.sol
            backend_said_so = any(("solve_ivp failed" in w[2]) or ("solve_dae failed" in w[2]) for w in sim.warnings)
            if backend_said_so and not (f and f["kind"] == "F4"):
                out["probes"]["truncated_organically"] += 1
            truncated = bool(sim.failed_instances()) or bool(f and f["kind"] == "F4") or backend_said_so
            if f and f["kind"] == "F2c":
                # continue mode: a failed iteration does not truncate the run (unless the solver raised, handled above)
                truncated = len(sol.t) < plan["n"] + 1 and any(i[0] == "fsolve" for i in sim.failed_instances())
                if sim.fired:
                    out["probes"]["continued_after_forced_fixed_point_failure"] += 1
    if sim.fired:
        out["faults"]["F2_fixed_point_failure" if (f and f["kind"] == "F2c") else "F1_newton_failure"] += len(sim.fired)
    if truncated:
        out["probes"]["truncated_by_fault" if f else "truncated_organically"] += 1
    out["probes"][f"ran_{name}"] += 1
    if plan.get("scene_kind") == "rod":
        out["probes"]["rod_in_system"] += 1
    nt = len(sol.t)
    out["steps"] = max(nt - 1, 0)
    log.ev("solution", name, nt, np.asarray(sol.t, dtype=float))
    if not check_solution_shape(sol, system, name, out["violations"]):
        return
    if name != "Riks":
        if plan.get("t1_kind") == "multiple":
            out["probes"]["decimal_multiple_t1"] += 1
        if name == "Newton":
            t = np.asarray(sol.t)
            want = np.linspace(0, 1, plan["n_load_steps"] + 1)
            if (len(t) and t[0] != 0.0) or not np.array_equal(t, want[: len(t)]):
                out["violations"].append(violation("grid_step", name, f"load steps {t.tolist()} are not a prefix of linspace(0,1,{plan['n_load_steps'] + 1})"))
                return
            if not truncated and (len(t) != len(want)):
                out["violations"].append(violation("grid_end", name, f"{len(t)} load steps returned, {len(want)} requested, run not truncated"))
                return
        else:
            if truncated and nt == 0:
                out["probes"]["truncated_to_nothing"] += 1
            elif not check_grid(sol, t0, t1, dt, name, truncated, out["violations"]):
                return
    if plan["saveload"]:
        save_load(sol, name, out)
    out["sim_time"] = float(sol.t[-1] - sol.t[0]) if (name != "Riks" and nt) else 0.0
    out["nontrivial"] = nt >= 2
    out["abstract"] = repr((name, plan.get("dt"), plan.get("n", plan.get("n_load_steps")), plan.get("t1_kind"), (f or {}).get("kind"), plan.get("scene_kind")))


def shrink(plan):
    if plan.get("saveload"):
        yield dict(plan, saveload=False)
    if plan.get("fault"):
        yield dict(plan, fault=None)
    sc = plan.get("scene")
    if sc:
        for key in ("forces", "actuators", "laws", "contacts", "joints"):
            if key == "joints" and (sc.get("laws") or sc.get("actuators")):
                continue
            for i in range(len(sc.get(key, [])) - 1, -1, -1):
                new = dict(sc)
                new[key] = sc[key][:i] + sc[key][i + 1 :]
                yield dict(plan, scene=new)
    so = plan.get("solver")
    if so and so.get("options"):
        yield dict(plan, solver=dict(so, options={}))
