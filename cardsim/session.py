"""Session machinery shared by the solver-run engines (C16-C21, C24, C19).

A session = plan-built system + solver run(s) under the simulator's seams,
with recorders for the per-step quantities the oracles need.
"""

import copy

import numpy as np

from .core import Discard, RunTimeout, violation

EVAL_BUDGET = 40000  # right-hand-side evaluations of a SciPy back end per run (deterministic cap)
from .scenes import build
from .seams import Sim

DYNAMIC = ["Rattle", "Moreau", "BackwardEuler", "DualStormerVerlet", "ScipyIVP", "ScipyDAE"]
NONSMOOTH = ["Rattle", "Moreau", "BackwardEuler", "DualStormerVerlet"]


# ------------------------------------------------------------------ solver specs
def gen_options(rng, tight=None, buggify=True, contacts=False):
    """SolverOptions fields (F6: legal perturbations, a random subset per run)."""
    o = {}
    if tight is None:
        tight = rng.random() < 0.6
    if tight:
        tol = float(rng.choice([1e-9, 1e-10]))
        o.update(newton_atol=tol, newton_rtol=tol, newton_max_iter=60)
        ftol = float(rng.choice([1e-8, 1e-9, 1e-10])) if contacts else tol
        o.update(fixed_point_atol=ftol, fixed_point_rtol=ftol, fixed_point_max_iter=int(rng.choice([2000, 5000])))
    if buggify:
        if rng.random() < 0.5:
            o["prox_scaling"] = float(rng.uniform(0.3, 1.5))
        if rng.random() < 0.5:
            o["reuse_lu_decomposition"] = bool(rng.random() < 0.5)
        if not tight and rng.random() < 0.3:
            tol = float(rng.choice([1e-7, 1e-8]))
            o.update(newton_atol=tol, newton_rtol=tol, fixed_point_atol=tol, fixed_point_rtol=tol)
    return o


def gen_solver(rng, name, steps, dt, tight=None, buggify=True, contacts=False):
    spec = {"name": name, "dt": float(dt), "steps": int(steps), "options": gen_options(rng, tight, buggify, contacts), "kwargs": {}}
    if name == "DualStormerVerlet":
        spec["kwargs"] = {
            "linear_solver": str(rng.choice(["LU", "MINRES", "MINRES (matrix free)"])) if buggify else "LU",
            "accelerated": bool(rng.random() < 0.5) if buggify else True,
        }
        if spec["kwargs"]["linear_solver"] != "LU" and spec["options"].get("fixed_point_atol", 1e-6) < 1e-8:
            # MINRES' own default tolerance cannot deliver 1e-9 fixed points
            spec["kwargs"]["linear_solver"] = "LU"
    elif name == "ScipyIVP":
        tol = float(rng.choice([1e-6, 1e-8, 1e-10]))
        spec["kwargs"] = {"method": str(rng.choice(["RK45", "DOP853", "Radau", "BDF"])) if buggify else "RK45", "rtol": tol, "atol": tol * 1e-2}
        spec["options"] = {}
    elif name == "ScipyDAE":
        tol = float(rng.choice([1e-3, 1e-4, 1e-6]))
        spec["kwargs"] = {"method": str(rng.choice(["Radau", "BDF"])) if buggify else "Radau", "rtol": tol, "atol": tol * 1e-3}
        spec["options"] = {}
    elif name == "BackwardEuler" and buggify and not contacts and steps <= 40 and rng.random() < 0.15:
        spec["options"]["numerical_jacobian_method"] = str(rng.choice(["2-point", "3-point"]))
    return spec


def make_options(d):
    from cardillo.solver import SolverOptions

    return SolverOptions(**d)


def t_end(t0, spec):
    """A final time that yields exactly ``steps`` steps for both np.arange
    conventions used by the solvers (grid end points are C20's subject)."""
    return t0 + (spec["steps"] - 0.5) * spec["dt"]


def make_solver(system, spec, t1=None):
    import cardillo.solver as S

    cls = getattr(S, spec["name"])
    t1 = t_end(system.t0, spec) if t1 is None else t1
    if spec["name"] in ("ScipyIVP", "ScipyDAE"):
        return cls(system, t1, spec["dt"], **spec["kwargs"])
    return cls(system, t1, spec["dt"], options=make_options(spec["options"]), **spec["kwargs"])


def solver_options(spec):
    from cardillo.solver import SolverOptions

    return SolverOptions(**spec.get("options", {}))


# ------------------------------------------------------------------ consistent initial velocities
def project_velocities(scene):
    """Returns a copy of the scene whose body velocities satisfy the
    velocity-level bilateral constraints (least-squares projection of the
    drawn velocities with the Jacobian of a throw-away build)."""
    from cardillo.solver import SolverOptions

    if not scene.get("joints") and not scene.get("nonholonomic"):
        return scene
    import warnings

    with warnings.catch_warnings():
        warnings.simplefilter("ignore")  # this throw-away build is the harness's own; its chatter is not an observable
        B = build(scene, options=SolverOptions(compute_consistent_initial_conditions=False))
        s = B.system
        if s.nu == 0:
            return scene
        t0, q0, u0 = s.t0, s.q0, s.u0
        J = np.vstack([s.W_g(t0, q0).toarray().T, s.gamma_u(t0, q0).toarray()])
        chi = np.concatenate([s.g_dot(t0, q0, np.zeros(s.nu)), s.gamma(t0, q0, np.zeros(s.nu))])
    if J.shape[0] == 0:
        return scene
    du = np.linalg.lstsq(J, J @ u0 + chi, rcond=1e-10)[0]
    u = u0 - du
    # a second sweep removes round-off
    u = u - np.linalg.lstsq(J, J @ u + chi, rcond=1e-10)[0]
    new = copy.deepcopy(scene)
    for i, b in enumerate(new["bodies"]):
        ub = u[B.bodies[i].uDOF]
        b["v"] = ub[:3].tolist()
        if b["kind"] == "rigid":
            b["w"] = ub[3:].tolist()
    for i, rd in enumerate(new.get("rods", [])):
        rd["u0"] = u[B.rods[i].uDOF].tolist()
    return new


def require_regular(B, rtol=1e-7):
    """Redundantly constrained scenes make every solver's iteration matrix
    singular; they are outside the properties' premise -> discard."""
    s = B.system
    if s.nla_g + s.nla_gamma == 0:
        return
    W = np.hstack([s.W_g(s.t0, s.q0).toarray(), s.W_gamma(s.t0, s.q0).toarray()])
    sv = np.linalg.svd(W, compute_uv=False)
    if W.shape[1] > W.shape[0] or sv[-1] < rtol * max(sv[0], 1.0):
        raise Discard("redundant_constraints")


def body_states(B, t, q, u):
    """State override dict for scenes.build from a global (t, q, u)."""
    st = {"t0": float(t), "bodies": {}}
    for i, body in enumerate(B.bodies):
        qb, ub = q[body.qDOF], u[body.uDOF]
        d = {"r": qb[:3].tolist(), "v": ub[:3].tolist()}
        if B.scene["bodies"][i]["kind"] == "rigid":
            d["p"] = qb[3:].tolist()
            d["w"] = ub[3:].tolist()
        st["bodies"][i] = d
    if getattr(B, "rods", None):
        st["rods"] = {i: {"q": np.array(q[rod.qDOF]).tolist(), "u": np.array(u[rod.uDOF]).tolist()} for i, rod in enumerate(B.rods)}
    mx = {}
    for k, (lw, c) in enumerate(zip(B.scene.get("laws", []), B.laws)):
        if lw["type"] == "maxwell":
            mx[k] = float(q[c.my_qDOF][0])
    if mx:
        st["maxwell"] = mx
    pid = {k: float(q[c.my_qDOF][0]) for k, (ac, c) in enumerate(zip(B.scene.get("actuators", []), B.actuators)) if ac["type"] == "pid"}
    if pid:
        st["pid"] = pid
    # reference lengths that were defined from the initial configuration keep their meaning
    st["l_ref"] = {k: float(c.l_ref) for k, c in enumerate(B.laws) if getattr(c, "l_ref", None) is not None}
    return st


# ------------------------------------------------------------------ running a solver under the simulator
class Run:
    pass


def run_solver(B, spec, sim, t1=None, record=True):
    """Run ``spec`` on B.system inside an installed ``sim``.  Returns a Run
    with sol / exc and the per-step records."""
    import cardillo.solver.dual_stormer_verlet as dsv_mod

    R = Run()
    R.B, R.spec, R.sim = B, spec, sim
    R.mid = {}  # step k (1-based) -> (t_mid, q_mid) for Moreau / DSV
    R.basis = {}  # step k -> {contact index: reference basis at the beginning of step k}
    R.revstate = {}
    R.sol, R.exc = None, None
    system = B.system
    s2s = [(i, c) for i, c in enumerate(B.contacts) if hasattr(c, "reference_contact_basis")]

    def on_step(k):
        if s2s:
            R.basis[k] = {i: c.reference_contact_basis.copy() for i, c in s2s}

    sim.on_step = on_step
    first_fp = {"step": -1}
    orig_fp = dsv_mod.fixed_point_iteration

    def fp_recorder(fun, x0, *a, **kw):
        out = orig_fp(fun, x0, *a, **kw)
        if record and first_fp["step"] != sim.step and len(x0) == system.nq:
            first_fp["step"] = sim.step
            # the midpoint TIME is the harness's own (initial time + (k - 1/2) dt), never read from the solver
            R.mid[sim.step] = (system.t0 + (sim.step - 0.5) * spec["dt"], np.array(out[0], dtype=float).copy())
        return out

    try:
        solver = make_solver(system, spec, t1)
    except Exception as e:  # constructor failures (e.g. Riks) are outcomes too
        R.exc = e
        R.solver = None
        return R
    R.solver = solver
    if record and spec["name"] == "Moreau":
        orig_step = solver.step

        def step():
            res = orig_step()
            R.mid[sim.step] = (system.t0 + (sim.step - 0.5) * spec["dt"], np.array(solver.qn12, dtype=float).copy())
            return res

        solver.step = step
    if spec["name"] == "DualStormerVerlet":
        dsv_mod.fixed_point_iteration = fp_recorder
    if spec["name"] in ("ScipyIVP", "ScipyDAE"):
        attr = "eqm" if spec["name"] == "ScipyIVP" else "fun"
        orig_rhs = getattr(solver, attr)
        count = {"n": 0}

        def rhs(*a, **k):
            count["n"] += 1
            if count["n"] > EVAL_BUDGET:
                raise Discard(f"eval_budget:{spec['name']}")
            return orig_rhs(*a, **k)

        setattr(solver, attr, rhs)
    # systems with rods: the largest position-level constraint residual per block right before the step callback
    # (nodal quaternion normalisation) touches the converged state of a step
    R.g_pre = {}
    R.gd_pre = {}
    orig_cb = None
    if record and getattr(B, "rods", None) and system.nla_g:
        orig_cb = system.step_callback
        blocks = [(c, c.la_gDOF) for c in system.contributions if hasattr(c, "la_gDOF")]

        def step_cb(t, q, u):
            g = system.g(t, q)
            gd = system.g_dot(t, q, u)
            R.g_pre[sim.step] = {id(c): (float(np.max(np.abs(g[d]))) if len(d) else 0.0) for c, d in blocks}
            R.gd_pre[sim.step] = {id(c): (float(np.max(np.abs(gd[d]))) if len(d) else 0.0) for c, d in blocks}
            return orig_cb(t, q, u)

        system.step_callback = step_cb
    try:
        R.sol = solver.solve()
    except (Discard, RunTimeout):
        raise
    except Exception as e:
        R.exc = e
    finally:
        dsv_mod.fixed_point_iteration = orig_fp
        sim.on_step = None
        if orig_cb is not None:
            del system.step_callback  # the instance attribute; the class method is back
    return R


def restore_basis(R, k):
    """Put every Sphere2Sphere back to the reference basis it had while step k
    was computed (its friction directions are expressed in that basis)."""
    snap = R.basis.get(k)
    if not snap:
        return
    for i, basis in snap.items():
        c = R.B.contacts[i]
        c.reference_contact_basis = basis.copy()
        for nm in ("t1t2_cache", "t1t2_q1_q2_cache"):
            if hasattr(c, nm):
                getattr(c, nm).clear()


def harness_M(system, t, q):
    """The mass matrix as the scatter of the contributions' own mass matrices (nothing cached by the System)."""
    M = np.zeros((system.nu, system.nu))
    for c in system.contributions:
        if hasattr(c, "M") and hasattr(c, "uDOF") and hasattr(c, "nu"):
            m = c.M(t, q[c.qDOF])
            m = m.toarray() if hasattr(m, "toarray") else np.asarray(m)
            M[np.ix_(c.uDOF, c.uDOF)] += m
    return M


# ------------------------------------------------------------------ Solution contract (C20), cross-cutting
FIELDS_DIM = {
    "q": "nq",
    "u": "nu",
    "u_dot": "nu",
    "q_dot": "nq",
    "la_g": "nla_g",
    "la_gamma": "nla_gamma",
    "la_c": "nla_c",
    "la_N": "nla_N",
    "la_F": "nla_F",
    "P_g": "nla_g",
    "P_gamma": "nla_gamma",
    "P_N": "nla_N",
    "P_F": "nla_F",
    "mu_g": "nla_g",
}


def check_solution_shape(sol, system, solver_name, out_violations):
    """Shape / iteration clauses of the Solution contract."""
    nt = len(sol.t)
    if nt == 0:
        return True
    for name, dim in FIELDS_DIM.items():
        val = getattr(sol, name, None)
        if val is None:
            continue
        val = np.asarray(val)
        want = (nt, getattr(system, dim))
        if val.shape != want:
            out_violations.append(violation("field_shape", f"{solver_name}.{name}", f"Solution.{name} has shape {val.shape}, expected {want} (one row per instant, width {dim}={getattr(system, dim)})"))
            return False
    # iteration; other Solution objects with other field sets have been iterated in this process before (a plain
    # one with the base fields, one with a user field): the records of this one carry its own fields
    try:
        from cardillo.solver.solution import Solution as _Solution

        _t = np.array([0.0, 1.0])
        _q = np.zeros((2, system.nq))
        list(_Solution(system, _t, _q))
        decoy = list(_Solution(system, _t, _q, u=np.zeros((2, system.nu)), zz_user=np.array([[1.0], [2.0]])))
        if [float(np.asarray(getattr(r, "zz_user", [np.nan]))[0]) for r in decoy] != [1.0, 2.0]:
            out_violations.append(violation("iterator", f"{solver_name}/user_field", f"records of a Solution with a user-supplied field do not carry it: fields {getattr(decoy[0], '_fields', None) if decoy else None}"))
            return False
    except Exception as e:
        out_violations.append(violation("iterator", f"{solver_name}/user_field", f"iterating a Solution with a user-supplied field raised {type(e).__name__}: {e}"))
        return False
    try:
        recs = list(sol)
    except Exception as e:
        out_violations.append(violation("iterator", solver_name, f"iterating the Solution raised {type(e).__name__}: {e}"))
        return False
    if len(recs) != nt:
        out_violations.append(violation("iterator", solver_name, f"iterating the Solution yields {len(recs)} records for {nt} instants"))
        return False
    # two iterations alive at the same time (zip, nested loops) are independent of each other
    if nt >= 2:
        try:
            pairs = [(float(a.t), float(b.t)) for a, b in zip(sol, sol)]
            it1 = iter(sol)
            first = float(next(it1).t)
            inner = [float(r.t) for r in sol]  # a complete second iteration while the first one is suspended
            second = float(next(it1).t)
        except Exception as e:
            out_violations.append(violation("iterator", f"{solver_name}/concurrent", f"two simultaneous iterations over one Solution raised {type(e).__name__}: {e}"))
            return False
        tt = [float(x) for x in np.asarray(sol.t)]
        if pairs != [(x, x) for x in tt] or inner != tt or (first, second) != (tt[0], tt[1]):
            out_violations.append(
                violation(
                    "iterator",
                    f"{solver_name}/concurrent",
                    f"two simultaneous iterations over one Solution are not independent: zip(sol, sol) gives {len(pairs)} pairs starting {pairs[:2]} for {nt} instants; a suspended iterator continues at t={second} instead of {tt[1]} after another loop ran",
                )
            )
            return False
    stored = [k for k in vars(sol) if k not in ("system", "solver_summary") and not k.startswith("_")]
    for i in sorted({0, nt // 2, nt - 1}):
        rec = recs[i]
        missing = [k for k in stored if getattr(sol, k) is not None and k not in rec._fields]
        extra = [k for k in rec._fields if k not in stored]
        if missing or extra:
            out_violations.append(
                violation(
                    "iterator",
                    f"{solver_name}/fields",
                    f"record {i} has fields {list(rec._fields)} but the Solution stores {stored}: missing {missing}, not stored {extra} (another Solution with other fields was iterated before in this process)",
                )
            )
            return False
        for name in rec._fields:
            val = getattr(sol, name)
            got = getattr(rec, name)
            if val is None:
                if got is not None:
                    out_violations.append(violation("iterator", f"{solver_name}.{name}", f"record {i}: field {name} is None in the Solution but not in the record"))
                    return False
                continue
            row = np.asarray(val)[i]
            if not np.array_equal(np.asarray(got), row, equal_nan=True):
                out_violations.append(violation("iterator", f"{solver_name}.{name}", f"record {i}: field {name} differs from row {i} of Solution.{name}"))
                return False
    return True


def check_grid(sol, t0, t1, dt, solver_name, truncated, out_violations):
    t = np.asarray(sol.t, dtype=float)
    if len(t) == 0 or t[0] != t0:
        out_violations.append(violation("grid_start", solver_name, f"t[0]={t[0] if len(t) else None!r}, initial time {t0!r}"))
        return False
    if len(t) > 1:
        d = np.diff(t)
        k = np.arange(1, len(t))
        tol = 8 * np.finfo(float).eps * np.maximum(np.abs(t[1:]), 1.0) * (1 + k / 8.0)
        bad = np.abs((t[1:] - t0) - k * dt) > tol * 4
        if np.any(d <= 0) or np.any(bad):
            i = int(np.argmax((d <= 0) | bad))
            out_violations.append(violation("grid_step", solver_name, f"t[{i + 1}]={t[i + 1]!r} is not t0 + {i + 1}*dt = {t0 + (i + 1) * dt!r} (dt={dt!r})"))
            return False
    if not truncated:
        eps = 1e-9 * dt
        if t[-1] < t1 - eps:
            out_violations.append(violation("grid_end", solver_name, f"grid ends at {t[-1]!r} before the final time {t1!r} (dt={dt!r}, {len(t)} instants) although the run was not truncated"))
            return False
        if len(t) > 1 and t[-2] >= t1 - eps:
            out_violations.append(violation("grid_end", solver_name, f"grid ends at {t[-1]!r}, but the earlier grid point {t[-2]!r} already reaches the final time {t1!r} (dt={dt!r}, {len(t)} instants): over-run"))
            return False
    return True
