"""Runner, seeds, event log/digest, evidence, known findings, exit protocol.

One integer (VERIF_SEED) decides everything: run i of (property, tier) gets
seed s_i = SHA256(VERIF_SEED, property, tier, i); the plan of the run is a
function of s_i only, and a run is a pure function ``execute(plan)``.
"""

import fnmatch
import hashlib
import importlib
import json
import os
import signal
import subprocess
import sys
import time
import traceback
from collections import Counter
from concurrent.futures import ProcessPoolExecutor
import multiprocessing as mp

import numpy as np

VERIF_DIR = os.path.dirname(os.path.dirname(os.path.abspath(__file__)))
REPO_DIR = os.environ.get("CARDSIM_REPO", "/repo")
KNOWN_FINDINGS = os.path.join(VERIF_DIR, "known_findings.json")
DEFAULT_SEED = 20260921

EXIT_OK, EXIT_VIOLATION, EXIT_HARNESS = 0, 1, 2


# --------------------------------------------------------------------------
# event log + digest
# --------------------------------------------------------------------------
class Log:
    """Sequence-numbered event log.  Only a running SHA-256 is kept unless
    ``keep`` is set (replay --trace).  Never draws random numbers, never
    reads a clock."""

    def __init__(self, keep=False):
        self.h = hashlib.sha256()
        self.seq = 0
        self.keep = keep
        self.events = []

    def _feed(self, x):
        if isinstance(x, np.ndarray):
            self.h.update(str(x.dtype).encode())
            self.h.update(str(x.shape).encode())
            self.h.update(np.ascontiguousarray(x).tobytes())
        elif isinstance(x, (float, np.floating)):
            self.h.update(np.float64(x).tobytes())
        elif isinstance(x, (list, tuple)):
            self.h.update(b"[")
            for y in x:
                self._feed(y)
            self.h.update(b"]")
        elif isinstance(x, dict):
            for k in sorted(x):
                self._feed(k)
                self._feed(x[k])
        else:
            self.h.update(repr(x).encode())
        self.h.update(b"|")

    def ev(self, kind, *payload):
        self.seq += 1
        self.h.update(b"E%d:" % self.seq)
        self._feed(kind)
        for p in payload:
            self._feed(p)
        if self.keep:
            self.events.append((self.seq, kind) + tuple(_short(p) for p in payload))
        return self.seq

    def digest(self):
        return self.h.hexdigest()


def _short(p):
    if isinstance(p, np.ndarray):
        if p.size <= 8:
            return p.tolist()
        return f"array{p.shape}#{hashlib.sha256(p.tobytes()).hexdigest()[:10]}"
    if isinstance(p, (np.floating, np.integer, np.bool_)):
        return p.item()
    return p


# --------------------------------------------------------------------------
# outcomes
# --------------------------------------------------------------------------
class Discard(Exception):
    """The generated case is outside the property's premise (counted)."""

    def __init__(self, reason):
        super().__init__(reason)
        self.reason = reason


class RunTimeout(Exception):
    pass


def violation(cls, sig, detail):
    return {"cls": cls, "sig": sig, "detail": detail}


def new_outcome():
    return {
        "status": "ok",
        "violations": [],
        "discard": None,
        "probes": Counter(),
        "faults": Counter(),
        "abstract": None,
        "nontrivial": False,
        "digest": None,
        "steps": 0,
        "sim_time": 0.0,
        "error": None,
    }


def run_seed(verif_seed, prop, tier, i):
    h = hashlib.sha256(f"{verif_seed}:{prop}:{tier}:{i}".encode()).digest()
    return int.from_bytes(h[:8], "big")


def rng_for(seed):
    return np.random.Generator(np.random.PCG64(seed))


def load_engine(prop):
    from . import ENGINES

    return importlib.import_module(f"cardsim.engines.{ENGINES[prop]}")


def jsonable(x):
    if isinstance(x, dict):
        return {str(k): jsonable(v) for k, v in x.items()}
    if isinstance(x, (list, tuple)):
        return [jsonable(v) for v in x]
    if isinstance(x, np.ndarray):
        return x.tolist()
    if isinstance(x, (np.floating,)):
        return float(x)
    if isinstance(x, (np.integer,)):
        return int(x)
    if isinstance(x, (np.bool_,)):
        return bool(x)
    return x


def canonical(plan):
    """Round trip through JSON so that a generated plan and a replayed plan
    are the same object (floats survive repr round trips exactly)."""
    return json.loads(json.dumps(jsonable(plan)))


# --------------------------------------------------------------------------
# executing one plan, safely
# --------------------------------------------------------------------------
def _alarm(signum, frame):
    raise RunTimeout("run exceeded its wall-clock cap")


def execute_plan(engine, plan, timeout_s=None, trace=False):
    """Run ``engine.execute(plan)`` and classify the result.  Exceptions of
    the harness itself are ``harness_error``s, never violations."""
    out = new_outcome()
    old = None
    if timeout_s:
        old = signal.signal(signal.SIGALRM, _alarm)
        signal.alarm(int(timeout_s))
    try:
        log = Log(keep=trace)
        engine.execute(plan, out, log)
        out["digest"] = log.digest()
        if trace:
            out["events"] = log.events
        if out["violations"]:
            out["status"] = "violation"
    except Discard as d:
        out["status"] = "discard"
        out["discard"] = d.reason
    except RunTimeout as e:
        out["status"] = "harness_error"
        out["error"] = f"timeout: {e}"
    except Exception:
        out["status"] = "harness_error"
        out["error"] = traceback.format_exc()
    finally:
        if timeout_s:
            signal.alarm(0)
            signal.signal(signal.SIGALRM, old)
    return out


def _slim(out, keep_plan, plan):
    res = {
        k: out[k]
        for k in (
            "status",
            "violations",
            "discard",
            "abstract",
            "nontrivial",
            "digest",
            "steps",
            "sim_time",
            "error",
        )
    }
    res["probes"] = dict(out["probes"])
    res["faults"] = dict(out["faults"])
    if keep_plan:
        res["plan"] = plan
    return res


def _worker(args):
    prop, tier, verif_seed, indices, timeout_s, n_samples = args
    engine = load_engine(prop)
    results = []
    for i in indices:
        seed = run_seed(verif_seed, prop, tier, i)
        try:
            plan = canonical(engine.gen(rng_for(seed), tier, i))
        except Exception:
            o = new_outcome()
            o["status"] = "harness_error"
            o["error"] = "gen: " + traceback.format_exc()
            results.append((i, seed, _slim(o, False, None)))
            continue
        out = execute_plan(engine, plan, timeout_s)
        keep = out["status"] in ("violation", "harness_error") or i < n_samples
        results.append((i, seed, _slim(out, keep, plan)))
    return results


PRELOAD = [
    "cardillo",
    "cardillo.solver",
    "cardillo.discrete",
    "cardillo.constraints",
    "cardillo.contacts",
    "cardillo.forces",
    "cardillo.force_laws",
    "cardillo.actuators",
    "cardillo.interactions",
    "cardillo.rods",
    "cardillo.math",
    "cardillo.utility.coo_matrix",
]


def preload(engine):
    """Import everything heavy in the parent so forked workers inherit it
    (16 processes importing scipy/vtk at once is slower than the checks)."""
    for m in PRELOAD + list(getattr(engine, "PRELOAD", [])):
        importlib.import_module(m)


def _init_worker():
    # quiet workers; the parent reports
    sys.stdout.flush()


# --------------------------------------------------------------------------
# known findings
# --------------------------------------------------------------------------
def load_known():
    if not os.path.exists(KNOWN_FINDINGS):
        return []
    with open(KNOWN_FINDINGS) as f:
        return json.load(f).get("findings", [])


def match_known(prop, v, known):
    for k in known:
        if k.get("status") != "open":
            continue  # fixed entries suppress nothing
        if k["property"] != prop or k["cls"] != v["cls"]:
            continue
        if fnmatch.fnmatchcase(v["sig"], k["sig"]):
            return k
    return None


# --------------------------------------------------------------------------
# shrinking
# --------------------------------------------------------------------------
def vkey(v):
    return (v["cls"], v["sig"])


def shrink(engine, plan, key, max_exec=150, max_s=60.0, timeout_s=60):
    """Greedy delta debugging: ``engine.shrink(plan)`` yields one-step
    reductions; accept the first that still shows the same (class, signature);
    repeat until a fixed point or the budget is exhausted."""
    if not hasattr(engine, "shrink"):
        return plan, 0
    t0 = time.time()
    n_exec = 0
    improved = True
    while improved and n_exec < max_exec and time.time() - t0 < max_s:
        improved = False
        for cand in engine.shrink(plan):
            if n_exec >= max_exec or time.time() - t0 >= max_s:
                break
            try:
                cand = canonical(cand)
            except Exception:
                continue
            if cand == plan:
                continue
            n_exec += 1
            out = execute_plan(engine, cand, timeout_s)
            if out["status"] == "violation" and any(
                vkey(v) == key for v in out["violations"]
            ):
                plan = cand
                improved = True
                break
    return plan, n_exec


def ddmin_list(items, min_len=0):
    """Candidate sub-lists for a one-step reduction: halves first, then
    single deletions."""
    n = len(items)
    if n <= min_len:
        return
    if n >= 4:
        half = n // 2
        if half >= min_len:
            yield items[:half]
            yield items[half:]
    if n >= 8:
        q = n // 4
        for a in range(0, n, q):
            c = items[:a] + items[a + q :]
            if len(c) >= min_len:
                yield c
    for i in range(n - 1, -1, -1):
        c = items[:i] + items[i + 1 :]
        if len(c) >= min_len:
            yield c


# --------------------------------------------------------------------------
# replay files
# --------------------------------------------------------------------------
def repo_rev():
    try:
        rev = subprocess.run(
            ["git", "-C", REPO_DIR, "rev-parse", "--short", "HEAD"],
            capture_output=True,
            text=True,
            timeout=20,
        ).stdout.strip()
        diff = subprocess.run(
            ["git", "-C", REPO_DIR, "diff", "HEAD", "--", "cardillo"],
            capture_output=True,
            timeout=20,
        ).stdout
        if diff:
            rev += "+dirty" + hashlib.sha256(diff).hexdigest()[:8]
        return rev
    except Exception:
        return "unknown"


def write_replay(prop, tier, seed, index, plan, v, digest, n_shrink, orig_plan=None):
    d = os.path.join(VERIF_DIR, "replays", prop)
    os.makedirs(d, exist_ok=True)
    safe = "".join(c if c.isalnum() or c in "-_." else "_" for c in f"{v['cls']}-{v['sig']}")
    path = os.path.join(d, f"{safe[:80]}-{seed}.json")
    with open(path, "w") as f:
        json.dump(
            {
                "property": prop,
                "tier": tier,
                "seed": seed,
                "run_index": index,
                "violation": v,
                "digest": digest,
                "shrink_executions": n_shrink,
                "repo_rev": repo_rev(),
                "plan": plan,
                "unshrunk_plan": orig_plan,
            },
            f,
            indent=1,
        )
    return path


def replay_in_fresh_process(path, timeout_s=300):
    """Re-execute a replay file in a fresh interpreter.  Returns
    (reproduced: bool, digest, text)."""
    env = dict(os.environ)
    env["PYTHONPATH"] = VERIF_DIR + os.pathsep + env.get("PYTHONPATH", "")
    p = subprocess.run(
        [sys.executable, "-m", "cardsim", "replay", path, "--machine"],
        capture_output=True,
        text=True,
        timeout=timeout_s,
        cwd=VERIF_DIR,
        env=env,
    )
    last = [l for l in p.stdout.splitlines() if l.startswith("REPLAY-RESULT ")]
    if not last:
        return False, None, p.stdout[-2000:] + p.stderr[-2000:]
    res = json.loads(last[-1][len("REPLAY-RESULT ") :])
    return res["reproduced"], res["digest"], res


# --------------------------------------------------------------------------
# the check driver
# --------------------------------------------------------------------------
def run_check(prop, tier, verif_seed=None, workers=None, n_override=None):
    t_start = time.time()
    engine = load_engine(prop)
    if verif_seed is None:
        verif_seed = int(os.environ.get("VERIF_SEED", DEFAULT_SEED))
    if workers is None:
        workers = int(os.environ.get("CARDSIM_WORKERS", min(16, os.cpu_count() or 1)))
    n_runs = n_override or engine.BUDGET[tier]
    timeout_s = int(os.environ.get("CARDSIM_RUN_TIMEOUT", getattr(engine, "RUN_TIMEOUT_S", 120)))
    chunk = getattr(engine, "CHUNK", 1)
    n_samples = 3

    import cardillo

    print(
        f"cardsim check property={prop} tier={tier} VERIF_SEED={verif_seed} runs={n_runs} "
        f"workers={workers} repo={repo_rev()} cardillo={os.path.dirname(os.path.dirname(cardillo.__file__))}",
        flush=True,
    )

    tasks = []
    idx = list(range(n_runs))
    for a in range(0, n_runs, chunk):
        tasks.append((prop, tier, verif_seed, idx[a : a + chunk], timeout_s, n_samples))

    preload(engine)
    results = []
    if workers <= 1:
        for t in tasks:
            results.extend(_worker(t))
    else:
        ctx = mp.get_context("fork")
        with ProcessPoolExecutor(
            max_workers=workers, mp_context=ctx, initializer=_init_worker
        ) as ex:
            for r in ex.map(_worker, tasks):
                results.extend(r)
    results.sort(key=lambda r: r[0])

    # ---------------------------------------------------------------- tally
    status = Counter()
    probes = Counter()
    faults = Counter()
    discards = Counter()
    abstract = set()
    steps = 0
    sim_time = 0.0
    samples = []
    groups = {}  # (cls, sig) -> first (i, seed, plan, violation, digest)
    vcount = Counter()
    harness_errors = []
    dig = hashlib.sha256()
    for i, seed, o in results:
        status[o["status"]] += 1
        probes.update(o["probes"])
        faults.update(o["faults"])
        steps += o["steps"]
        sim_time += o["sim_time"]
        dig.update(f"{i}:{o['digest']}:{o['status']};".encode())
        if o["status"] == "discard":
            discards[o["discard"]] += 1
        if o["status"] == "harness_error":
            harness_errors.append((i, seed, o["error"], o.get("plan")))
        if o["nontrivial"] and o["abstract"] is not None:
            abstract.add(o["abstract"])
        if i < n_samples and "plan" in o:
            samples.append(
                {"run": i, "seed": seed, "status": o["status"], "plan": _clip(o["plan"])}
            )
        for v in o["violations"]:
            vcount[vkey(v)] += 1
            groups.setdefault(vkey(v), (i, seed, o["plan"], v, o["digest"]))

    # ----------------------------------------------------- violations
    known = load_known()
    exit_code = EXIT_OK
    report = []
    unlisted = 0
    for key, (i, seed, plan, v, digest) in sorted(groups.items()):
        k = match_known(prop, v, known)
        small, n_shrink = shrink(engine, plan, key)
        out = execute_plan(engine, small, timeout_s)
        vv = next((x for x in out["violations"] if vkey(x) == key), v)
        path = write_replay(prop, tier, seed, i, small, vv, out["digest"], n_shrink, plan)
        reproduced, rdigest, info = replay_in_fresh_process(path)
        entry = {
            "cls": v["cls"],
            "sig": v["sig"],
            "detail": vv["detail"],
            "count": vcount[key],
            "first_run": i,
            "seed": seed,
            "replay": path,
            "replayed_in_fresh_process": reproduced,
            "digest_match": rdigest == out["digest"],
            "known_finding": bool(k),
        }
        report.append(entry)
        if not reproduced or rdigest != out["digest"]:
            # a violation that does not replay is a harness problem
            harness_errors.append((i, seed, f"violation did not replay: {info}", None))
            continue
        if k:
            print(f"KNOWN-FINDING: property={prop} {k['what']} [{v['cls']} {v['sig']}] replay={path}")
        else:
            unlisted += 1
            print(f"VIOLATION property={prop} replay={path}")
            print(f"  class={v['cls']} signature={v['sig']} runs={vcount[key]} detail={vv['detail']}")
    if unlisted:
        exit_code = EXIT_VIOLATION

    # discards above threshold / harness errors fail the harness, not the property
    max_discard = getattr(engine, "MAX_DISCARD_FRACTION", 0.5)
    if harness_errors:
        for i, seed, err, plan in harness_errors[:5]:
            print(f"HARNESS-ERROR run={i} seed={seed}\n{err}", file=sys.stderr)
        if exit_code == EXIT_OK:
            exit_code = EXIT_HARNESS
    if status["discard"] > max_discard * n_runs and exit_code == EXIT_OK:
        print(
            f"HARNESS-ERROR too many discards: {status['discard']}/{n_runs} {dict(discards)}",
            file=sys.stderr,
        )
        exit_code = EXIT_HARNESS
    if hasattr(engine, "REQUIRED_PROBES") and exit_code == EXIT_OK:
        missing = [p for p in engine.REQUIRED_PROBES.get(tier, []) if probes[p] == 0]
        if missing:
            print(f"HARNESS-ERROR reach probes stuck at zero: {missing}", file=sys.stderr)
            exit_code = EXIT_HARNESS

    wall = time.time() - t_start
    n_eval = status["ok"] + status["violation"] + status["discard"]
    evidence = {
        "property_id": prop,
        "tier": tier,
        "seed": int(verif_seed),
        "level": engine.LEVEL,
        "coverage": {
            "evaluations": int(n_eval),
            "distinct_nontrivial": len(abstract),
            "rule": engine.RULE,
            "samples": samples,
            "outcomes": dict(status),
            "discards_by_reason": dict(discards),
            "faults_fired": dict(faults),
            "probes": dict(sorted(probes.items())),
            "simulated_steps": int(steps),
            "simulated_time": float(sim_time),
            "runs_per_hour": float(n_eval / wall * 3600) if wall > 0 else 0.0,
            "workers": workers,
            "batch_digest": dig.hexdigest(),
            "components": getattr(engine, "COMPONENTS", {}),
            "violations_found": report,
            "exhaustive": False,
            "repo_rev": repo_rev(),
        },
        "assumptions": getattr(engine, "ASSUMPTIONS", []),
        "wall_s": round(wall, 2),
        "violations": int(unlisted),
    }
    if hasattr(engine, "extra_evidence"):
        evidence["coverage"].update(engine.extra_evidence(tier, results))
    if exit_code != EXIT_HARNESS:
        edir = os.environ.get("CARDSIM_EVIDENCE_DIR", os.path.join(VERIF_DIR, "evidence"))
        os.makedirs(edir, exist_ok=True)
        with open(os.path.join(edir, f"{prop}.json"), "w") as f:
            json.dump(jsonable(evidence), f, indent=1)
    print(
        f"summary property={prop} tier={tier} runs={n_runs} {dict(status)} distinct={len(abstract)} "
        f"faults={dict(faults)} steps={steps} wall={wall:.1f}s exit={exit_code}",
        flush=True,
    )
    return exit_code


def _clip(plan, limit=4000):
    s = json.dumps(plan)
    if len(s) <= limit:
        return plan
    return {"clipped_json": s[:limit] + "...", "length": len(s)}
