"""Determinism self-test (DESIGN 8.1).

For every engine, the first N runs of a tier are executed
  (a) in this process, one worker,
  (b) again in this process, one worker,
  (c) in a fresh interpreter with a different PYTHONHASHSEED and 16 workers,
and the per-run event-log digests must be identical.  Any divergence is a
harness bug (exit 2), never a violation.
"""

import os
import subprocess
import sys
from concurrent.futures import ProcessPoolExecutor
import multiprocessing as mp

from . import core


def _one(args):
    prop, tier, verif_seed, i = args
    engine = core.load_engine(prop)
    seed = core.run_seed(verif_seed, prop, tier, i)
    plan = core.canonical(engine.gen(core.rng_for(seed), tier, i))
    out = core.execute_plan(engine, plan, 600)
    return i, f"{out['status']}:{out['digest']}:{out.get('discard')}"


def digests(prop, tier, n, workers):
    verif_seed = int(os.environ.get("VERIF_SEED", core.DEFAULT_SEED))
    tasks = [(prop, tier, verif_seed, i) for i in range(n)]
    core.preload(core.load_engine(prop))
    if workers <= 1:
        return [_one(t) for t in tasks]
    with ProcessPoolExecutor(max_workers=workers, mp_context=mp.get_context("fork")) as ex:
        return sorted(ex.map(_one, tasks))


def determinism(props, tier, n):
    bad = 0
    for prop in props:
        a = dict(digests(prop, tier, n, 1))
        b = dict(digests(prop, tier, n, 1))
        env = dict(os.environ)
        env["CARDSIM_HASHSEED"] = "271828"
        env.pop("PYTHONHASHSEED", None)
        env.pop("CARDSIM_REEXEC", None)
        p = subprocess.run(
            [sys.executable, "-m", "cardsim", "digests", prop, "--tier", tier, "--seeds", str(n), "--workers", "16"],
            capture_output=True,
            text=True,
            cwd=core.VERIF_DIR,
            env=env,
            timeout=3600,
        )
        c = {}
        for line in p.stdout.splitlines():
            if line.startswith("DIGEST "):
                _, i, d = line.split(" ", 2)
                c[int(i)] = d
        diff_ab = [i for i in a if a[i] != b[i]]
        diff_ac = [i for i in a if a[i] != c.get(i)]
        ok = not diff_ab and not diff_ac and len(c) == n
        print(f"determinism {prop}: {n} runs x3 (in-process twice, fresh interpreter PYTHONHASHSEED=271828 16 workers): {'identical' if ok else 'DIVERGED'}", flush=True)
        if not ok:
            bad += 1
            print(f"  in-process mismatch at runs {diff_ab[:10]}; fresh-interpreter mismatch at runs {diff_ac[:10]} (got {len(c)} digests)")
            if p.returncode != 0:
                print(p.stderr[-2000:])
    return core.EXIT_HARNESS if bad else core.EXIT_OK
