"""CLI.

  python -m cardsim check  C15 [--tier quick|thorough] [--runs N] [--workers W]
  python -m cardsim replay <file> [--trace]
  python -m cardsim selftest determinism [C15 ...] [--seeds N]
  python -m cardsim one C15 <run index> [--tier quick]     (debug: run one seed verbosely)

Exit: 0 property held / 1 VIOLATION line printed / 2 harness error.
"""

import os
import sys

# ---------------------------------------------------------------- environment
# must happen before numpy / cardillo are imported
_ENV = {
    "OMP_NUM_THREADS": "1",
    "OPENBLAS_NUM_THREADS": "1",
    "MKL_NUM_THREADS": "1",
    "NUMEXPR_NUM_THREADS": "1",
    "CARDILLOPROJECT_CARDILLO_VERIF": "1",
    "PYTHONDONTWRITEBYTECODE": "1",
}
_want_hash = os.environ.get("CARDSIM_HASHSEED", "0")
_need_exec = os.environ.get("PYTHONHASHSEED") != _want_hash
for _k, _v in _ENV.items():
    if os.environ.get(_k) != _v:
        os.environ[_k] = _v
        _need_exec = True
if _need_exec and os.environ.get("CARDSIM_REEXEC") != "1":
    os.environ["PYTHONHASHSEED"] = _want_hash
    os.environ["CARDSIM_REEXEC"] = "1"
    os.execv(sys.executable, [sys.executable, "-m", "cardsim"] + sys.argv[1:])

import argparse
import json


def main(argv=None):
    from . import core, ENGINES

    ap = argparse.ArgumentParser(prog="cardsim")
    sub = ap.add_subparsers(dest="cmd", required=True)
    c = sub.add_parser("check")
    c.add_argument("prop")
    c.add_argument("--tier", default=os.environ.get("VERIF_TIER", "quick"))
    c.add_argument("--runs", type=int, default=None)
    c.add_argument("--workers", type=int, default=None)
    r = sub.add_parser("replay")
    r.add_argument("path")
    r.add_argument("--trace", action="store_true")
    r.add_argument("--machine", action="store_true")
    s = sub.add_parser("selftest")
    s.add_argument("what", choices=["determinism"])
    s.add_argument("props", nargs="*")
    s.add_argument("--seeds", type=int, default=40)
    s.add_argument("--tier", default="quick")
    o = sub.add_parser("one")
    o.add_argument("prop")
    o.add_argument("index", type=int)
    o.add_argument("--tier", default="quick")
    o.add_argument("--trace", action="store_true")
    d = sub.add_parser("digests")  # used by the determinism self-test
    d.add_argument("prop")
    d.add_argument("--tier", default="quick")
    d.add_argument("--seeds", type=int, default=40)
    d.add_argument("--workers", type=int, default=1)
    a = ap.parse_args(argv)

    if a.cmd == "check":
        tier = a.tier if a.tier in ("quick", "thorough") else "quick"
        return core.run_check(a.prop, tier, workers=a.workers, n_override=a.runs)

    if a.cmd == "replay":
        with open(a.path) as f:
            rep = json.load(f)
        engine = core.load_engine(rep["property"])
        out = core.execute_plan(engine, core.canonical(rep["plan"]), 600, trace=a.trace)
        want = (rep["violation"]["cls"], rep["violation"]["sig"])
        got = [v for v in out["violations"] if core.vkey(v) == want]
        res = {
            "reproduced": bool(got),
            "digest": out["digest"],
            "status": out["status"],
            "violations": out["violations"],
            "error": out["error"],
        }
        if a.trace:
            for e in out.get("events", []):
                print(e)
        if a.machine:
            print("REPLAY-RESULT " + json.dumps(core.jsonable(res)))
        else:
            print(json.dumps(core.jsonable(res), indent=1))
        if out["status"] == "harness_error":
            print(out["error"], file=sys.stderr)
            return core.EXIT_HARNESS
        if got:
            print(f"VIOLATION property={rep['property']} replay={a.path}")
            return core.EXIT_VIOLATION
        if out["violations"]:
            print(f"VIOLATION property={rep['property']} replay={a.path} (different class)")
            return core.EXIT_VIOLATION
        return core.EXIT_OK

    if a.cmd == "one":
        engine = core.load_engine(a.prop)
        seed = core.run_seed(int(os.environ.get("VERIF_SEED", core.DEFAULT_SEED)), a.prop, a.tier, a.index)
        plan = core.canonical(engine.gen(core.rng_for(seed), a.tier, a.index))
        print(json.dumps(plan)[:6000])
        out = core.execute_plan(engine, plan, 600, trace=a.trace)
        if a.trace:
            for e in out.get("events", []):
                print(e)
        out.pop("events", None)
        print(json.dumps(core.jsonable(out), indent=1, default=str))
        return 0

    if a.cmd == "digests":
        from .selftest import digests

        for i, dgs in digests(a.prop, a.tier, a.seeds, a.workers):
            print(f"DIGEST {i} {dgs}")
        return 0

    if a.cmd == "selftest":
        from .selftest import determinism

        props = a.props or sorted(ENGINES)
        return determinism(props, a.tier, a.seeds)


if __name__ == "__main__":
    sys.exit(main())
